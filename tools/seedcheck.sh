#!/bin/bash
# seedcheck.sh <ID> [suffix] [outdir] — confirm a sub-agent's seeded defect and run the checks against it.
#  1. in the agent's scratch worktree /tmp/seed-<ID><suffix>: clean source + demo passes; patch applies; existing
#     suite green with the patch (default and all features); demo fails with the patch
#  2. apply the patch to /repo, run the property's quick check (and any extra ids in $EXTRA), revert
#  3. store patch, demo and meta.json under /verif/seeded/<ID><suffix>/
ID="$1"; SUF="${2:-}"; WT="/tmp/seed-$ID"; OUT="${3:-$WT/OUT}"; DEST="/verif/seeded/$ID$SUF"
[ -f "$OUT/patch.diff" ] || { echo "no patch in $OUT"; exit 2; }
export CARGO_NET_OFFLINE=true RUST_BACKTRACE=0
cd "$WT" || exit 2
git checkout -q -- src 2>/dev/null; rm -f tests/seeded_demo*.rs
git apply --check "$OUT/patch.diff" || { echo "patch does not apply to clean source"; exit 2; }
cp "$OUT/seeded_demo.rs" tests/seeded_demo.rs
clean_demo=$(cargo test --offline --all-features --test seeded_demo 2>&1 | grep -E "^test result" | tail -1)
git apply "$OUT/patch.diff"
mv tests/seeded_demo.rs /tmp/seeded_demo.$$.rs
suite_default=$(cargo test --offline 2>&1 | grep -E "^test result|FAILED" | tr '\n' ' ')
suite_all=$(cargo test --offline --all-features 2>&1 | grep -E "^test result" | tr '\n' ' ')
mv /tmp/seeded_demo.$$.rs tests/seeded_demo.rs
mut_demo=$(cargo test --offline --all-features --test seeded_demo 2>&1 | grep -E "^test result" | tail -1)
echo "clean demo : $clean_demo"; echo "suite (default, patched): $suite_default"; echo "suite (all features, patched): $suite_all"; echo "patched demo: $mut_demo"
# checks
[ -z "$(git -C /repo status --porcelain --untracked-files=no)" ] || { echo "/repo not clean"; exit 2; }
git -C /repo apply "$OUT/patch.diff" || exit 2
trap 'git -C /repo checkout -- .' EXIT INT TERM
results=""
for c in $ID $EXTRA; do
  o=$(/verif/run.sh "$c" quick --no-evidence 2>&1); rc=$?
  line=$(echo "$o" | grep -E "^(failure|corpus failure)" | head -1 | cut -c1-400)
  echo "CHECK $c rc=$rc $line"
  results="$results$c:rc=$rc;"
  [ "$c" = "$ID" ] && own_rc=$rc && own_line="$line"
done
git -C /repo checkout -- .; trap - EXIT
mkdir -p "$DEST"; cp "$OUT/patch.diff" "$OUT/seeded_demo.rs" "$DEST/"; cp "$OUT/NOTES.md" "$DEST/NOTES.md" 2>/dev/null
python3 - "$DEST/meta.json" "$ID" "$clean_demo" "$suite_default" "$suite_all" "$mut_demo" "$results" "$own_rc" "$own_line" <<'PY'
import json,sys
p,pid,clean,sd,sa,md,res,rc,line=sys.argv[1:10]
json.dump({"breaks_property":pid,"source":"independent sub-agent given only the property text and a scratch worktree",
 "needs_to_manifest":"see NOTES.md (written by the sub-agent)",
 "confirmed":{"demo_on_clean_source":clean,"existing_suite_default_features_with_patch":sd,"existing_suite_all_features_with_patch":sa,"demo_with_patch":md},
 "checks_run":res,"detected_by_own_check":rc=="1","own_check_first_failure":line},open(p,'w'),indent=1)
PY
echo "stored in $DEST"
