#!/bin/bash
# seedcheck-iso.sh <suffix-prefix> <ID:V>... — like seedcheck.sh for agents that deliver several defects
# (/tmp/seed-<ID>/OUT/<V>/), but the checks run against a private scratch copy of /repo (HEAD) and of the
# harness under /var/tmp, so that several of these can run side by side and /repo is never touched.
# Stores /verif/seeded/<ID><suffix-prefix><v>/ (v = lower-case V). $EXTRA = further check ids to run.
set -u
SP="$1"; shift
WORK=$(mktemp -d /var/tmp/vseed.XXXXXX)
trap 'rm -rf "$WORK"' EXIT
git -C /repo archive HEAD | (mkdir -p "$WORK/repo" && tar -x -C "$WORK/repo")
(cd "$WORK/repo" && git init -q && git add -A >/dev/null && git -c user.email=a@b -c user.name=m commit -qm base)
mkdir -p "$WORK/verif"
rsync -a --exclude target --exclude build.log /verif/harness "$WORK/verif/"
cp -r /verif/corpus /verif/known_findings.json "$WORK/verif/" 2>/dev/null
sed -i "s|path = \"/repo\"|path = \"$WORK/repo\"|" "$WORK/verif/harness/Cargo.toml"
export RUST_BACKTRACE=0 CARGO_NET_OFFLINE=true
for item in "$@"; do
  ID=${item%%:*}; V=${item##*:}; v=$(echo "$V" | tr A-Z a-z)
  WT="/tmp/seed-$ID"; OUT="$WT/OUT/$V"; DEST="/verif/seeded/$ID$SP$v"
  echo "=== $ID $V"
  [ -f "$OUT/patch.diff" ] || { echo "no patch in $OUT"; continue; }
  ( cd "$WT" || exit 2
    git checkout -q -- src 2>/dev/null; rm -f tests/seeded_demo*.rs
    git apply --check "$OUT/patch.diff" || { echo "patch does not apply to clean source"; exit 3; }
    cp "$OUT/seeded_demo.rs" tests/seeded_demo.rs
    clean_demo=$(cargo test --offline --all-features --test seeded_demo 2>&1 | grep -E "^test result" | tail -1)
    git apply "$OUT/patch.diff"
    mv tests/seeded_demo.rs "$WORK/seeded_demo.rs"
    suite_default=$(cargo test --offline 2>&1 | grep -E "^test result|FAILED" | tr '\n' ' ')
    suite_all=$(cargo test --offline --all-features 2>&1 | grep -E "^test result" | tr '\n' ' ')
    mv "$WORK/seeded_demo.rs" tests/seeded_demo.rs
    mut_demo=$(cargo test --offline --all-features --test seeded_demo 2>&1 | grep -E "^test result" | tail -1)
    git checkout -q -- src; rm -f tests/seeded_demo.rs
    printf '%s\n%s\n%s\n%s\n' "$clean_demo" "$suite_default" "$suite_all" "$mut_demo" > "$WORK/confirm.txt"
  ) || continue
  clean_demo=$(sed -n 1p "$WORK/confirm.txt"); suite_default=$(sed -n 2p "$WORK/confirm.txt"); suite_all=$(sed -n 3p "$WORK/confirm.txt"); mut_demo=$(sed -n 4p "$WORK/confirm.txt")
  echo "clean demo : $clean_demo" | sed -E 's/finished in [0-9.]+s//'; echo "patched demo: $mut_demo" | sed -E 's/finished in [0-9.]+s//'
  echo "suites: $(echo "$suite_default $suite_all" | grep -o 'FAILED\|[0-9]* failed' | tr '\n' ' ')"
  git -C "$WORK/repo" apply "$OUT/patch.diff" || { echo "patch does not apply to /repo HEAD"; continue; }
  FEAT="--no-default-features"; case " $ID ${EXTRA:-} " in *" C20 "*) FEAT="" ;; esac
  results=""; own_rc=""; own_line=""
  if (cd "$WORK/verif/harness" && cargo build --release --offline -q $FEAT 2>"$WORK/build.log"); then
    for c in $ID ${EXTRA:-}; do
      o=$(VERIF_ROOT="$WORK/verif" "$WORK/verif/harness/target/release/vcheck" "$c" --tier quick --no-evidence 2>&1); rc=$?
      line=$(echo "$o" | grep -E "^(failure|corpus failure)" | head -1 | cut -c1-400)
      echo "CHECK $c rc=$rc $line"
      results="$results$c:rc=$rc;"
      [ "$c" = "$ID" ] && own_rc=$rc && own_line="$line"
    done
  else
    echo "CHECK $ID harness does not build with the patch"; results="build-failed"
  fi
  git -C "$WORK/repo" checkout -q -- .
  mkdir -p "$DEST"; cp "$OUT/patch.diff" "$OUT/seeded_demo.rs" "$DEST/"; cp "$OUT/NOTES.md" "$DEST/NOTES.md" 2>/dev/null
  python3 - "$DEST/meta.json" "$ID" "$clean_demo" "$suite_default" "$suite_all" "$mut_demo" "$results" "$own_rc" "$own_line" <<'PY'
import json,sys
p,pid,clean,sd,sa,md,res,rc,line=sys.argv[1:10]
json.dump({"breaks_property":pid,"source":"independent sub-agent given only the property text and a scratch worktree",
 "needs_to_manifest":"see NOTES.md (written by the sub-agent)",
 "confirmed":{"demo_on_clean_source":clean,"existing_suite_default_features_with_patch":sd,"existing_suite_all_features_with_patch":sa,"demo_with_patch":md},
 "checks_run":res,"detected_by_own_check":rc=="1","own_check_first_failure":line},open(p,'w'),indent=1)
PY
done
