#!/bin/bash
# clean-iso.sh "<seeds>" ID... — run quick checks of the *working copy* of the harness against a scratch copy
# of /repo HEAD (unchanged tree), for several seeds; prints only non-OK results. Development tool.
SEEDS="$1"; shift
WORK=$(mktemp -d /var/tmp/vclean.XXXXXX)
trap 'rm -rf "$WORK"' EXIT
git -C /repo archive HEAD | (mkdir -p "$WORK/repo" && tar -x -C "$WORK/repo")
mkdir -p "$WORK/verif"
rsync -a --exclude target --exclude build.log /verif/harness "$WORK/verif/"
cp -r /verif/corpus /verif/known_findings.json "$WORK/verif/" 2>/dev/null
sed -i "s|path = \"/repo\"|path = \"$WORK/repo\"|" "$WORK/verif/harness/Cargo.toml"
export RUST_BACKTRACE=0 CARGO_NET_OFFLINE=true VERIF_ROOT="$WORK/verif"
(cd "$WORK/verif/harness" && cargo build --release --offline -q 2>"$WORK/build.log") || { echo "build failed"; grep -E "^error" -A8 "$WORK/build.log" | head -30; exit 2; }
for s in $SEEDS; do for id in "$@"; do
  o=$(VERIF_SEED=$s "$WORK/verif/harness/target/release/vcheck" "$id" --tier quick --no-evidence 2>&1); rc=$?
  [ $rc -eq 0 ] || { echo "seed $s $id rc=$rc"; echo "$o" | grep -E "^(failure|corpus failure|INCONCLUSIVE|VIOLATION)" | head -3 | cut -c1-600; }
done; echo "seed $s done"; done
