#!/bin/sh
# runmut.sh <mutant.diff> <ID> [ID...]  — apply a mutant to /repo, run quick checks, restore /repo.
# Development tool for sensitivity testing (DESIGN.md section 5); not a registered check.
M="$(readlink -f "$1")"; shift
[ -z "$(git -C /repo status --porcelain --untracked-files=no)" ] || { echo "/repo not clean"; exit 2; }
git -C /repo apply "$M" || { echo "patch does not apply"; exit 2; }
trap 'git -C /repo checkout -- . ' EXIT INT TERM
for ID in "$@"; do
  out=$(VERIF_ROOT=/verif /verif/run.sh "$ID" quick --no-evidence ${VERIF_MUT_ARGS} 2>&1); rc=$?
  if [ "$1" = "-v" ]; then echo "$out"; fi
  echo "MUT $(basename "$M" .diff) $ID rc=$rc $(echo "$out" | grep -E '^failure' | head -1 | cut -c1-220)"
done
