#!/bin/bash
# reseed.sh [dir-glob] — re-run every stored seeded defect (/verif/seeded/<name>/patch.diff) against the
# current checks: apply to /repo, run the quick check of the property it breaks (and $EXTRA), restore /repo.
# Development tool (DESIGN.md section 5); leaves nothing behind.
GLOB="${1:-*}"
[ -z "$(git -C /repo status --porcelain --untracked-files=no)" ] || { echo "/repo not clean"; exit 2; }
trap 'git -C /repo checkout -- . 2>/dev/null' EXIT INT TERM
for d in /verif/seeded/$GLOB/; do
  name=$(basename "$d"); id=${name%%-*}
  if ! git -C /repo apply "$d/patch.diff" 2>/dev/null; then echo "SEED $name: patch does not apply to the current /repo"; continue; fi
  line=""
  for c in $id $EXTRA; do
    o=$(/verif/run.sh "$c" quick --no-evidence 2>&1); rc=$?
    sig=$(echo "$o" | grep -E "^(failure|corpus failure)" | head -1 | sed -E 's/^(corpus )?failure \[([^]]*)\].*/\2/')
    line="$line $c:rc=$rc[$sig]"
  done
  echo "SEED $name:$line"
  git -C /repo checkout -- .
done
