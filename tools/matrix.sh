#!/bin/bash
# matrix.sh [mutant-glob] [ids...] — sensitivity / cross-talk matrix (development tool, DESIGN.md section 5).
# Works on scratch copies of /repo (HEAD) and of the harness, so neither /repo nor /verif is touched.
# Usage: tools/matrix.sh 'c0*' C01 C02 ...      (default: all mutants, all ids registered in main.rs)
set -u
GLOB="${1:-*}"; shift || true
IDS="$*"
[ -n "$IDS" ] || IDS="C01 C02 C03 C04 C05 C06 C07 C08 C09 C10 C11 C12 C13 C18 C20"
SRC_VERIF="${MATRIX_VERIF:-/verif}"
WORK=$(mktemp -d /var/tmp/vmatrix.XXXXXX)
trap 'rm -rf "$WORK"' EXIT
git -C /repo archive HEAD | (mkdir -p "$WORK/repo" && tar -x -C "$WORK/repo")
(cd "$WORK/repo" && git init -q && git add -A >/dev/null && git -c user.email=a@b -c user.name=m commit -qm base)
mkdir -p "$WORK/verif"
rsync -a --exclude target --exclude build.log "$SRC_VERIF/harness" "$WORK/verif/"
cp -r "$SRC_VERIF/corpus" "$SRC_VERIF/known_findings.json" "$WORK/verif/" 2>/dev/null
sed -i "s|path = \"/repo\"|path = \"$WORK/repo\"|" "$WORK/verif/harness/Cargo.toml"
export RUST_BACKTRACE=0 CARGO_NET_OFFLINE=true VERIF_ROOT="$WORK/verif"
FEAT="--no-default-features"; case " $IDS " in *" C20 "*) FEAT="" ;; esac
(cd "$WORK/verif/harness" && cargo build --release --offline -q $FEAT 2>/dev/null) || { echo "base build failed"; exit 2; }
printf "%-42s" mutant; for id in $IDS; do printf " %4s" "$id"; done; echo
for m in "${MATRIX_DIR:-$SRC_VERIF/mutants}"/$GLOB.diff; do
  name=$(basename "$m" .diff)
  if ! git -C "$WORK/repo" apply "$m" 2>/dev/null; then printf "%-42s patch-does-not-apply\n" "$name"; continue; fi
  if ! (cd "$WORK/verif/harness" && cargo build --release --offline -q $FEAT 2>"$WORK/build.log"); then
    printf "%-42s does-not-build\n" "$name"; git -C "$WORK/repo" checkout -q -- .; continue
  fi
  printf "%-42s" "$name"
  for id in $IDS; do
    "$WORK/verif/harness/target/release/vcheck" "$id" --tier quick --no-evidence --seed "${VERIF_SEED:-0}" >"$WORK/out.txt" 2>&1; rc=$?
    case $rc in 0) c="." ;; 1) c="X" ;; *) c="?" ;; esac
    printf " %4s" "$c"
  done
  echo
  git -C "$WORK/repo" checkout -q -- .
done
