#!/bin/bash
# reseed-iso.sh [dir-glob] — like reseed.sh, but on scratch copies of /repo (HEAD) and of the harness under
# /var/tmp, so that neither /repo nor /verif is touched and other work can go on. Prints one line per
# stored seeded defect: the exit code and first failure signature of the quick check of the property the
# seed was written against (and of the ids in $EXTRA). Development tool (DESIGN.md section 5).
set -u
GLOB="${1:-*}"
WORK=$(mktemp -d /var/tmp/vreseed.XXXXXX)
trap 'rm -rf "$WORK"' EXIT
git -C /repo archive HEAD | (mkdir -p "$WORK/repo" && tar -x -C "$WORK/repo")
(cd "$WORK/repo" && git init -q && git add -A >/dev/null && git -c user.email=a@b -c user.name=m commit -qm base)
mkdir -p "$WORK/verif"
rsync -a --exclude target --exclude build.log /verif/harness "$WORK/verif/"
cp -r /verif/corpus /verif/known_findings.json "$WORK/verif/" 2>/dev/null
sed -i "s|path = \"/repo\"|path = \"$WORK/repo\"|" "$WORK/verif/harness/Cargo.toml"
export RUST_BACKTRACE=0 CARGO_NET_OFFLINE=true VERIF_ROOT="$WORK/verif"
for d in /verif/seeded/$GLOB/; do
  name=$(basename "$d"); id=${name%%-*}
  if ! git -C "$WORK/repo" apply "$d/patch.diff" 2>/dev/null; then echo "SEED $name: patch does not apply"; continue; fi
  FEAT="--no-default-features"; case " $id ${EXTRA:-} " in *" C20 "*) FEAT="" ;; esac
  if ! (cd "$WORK/verif/harness" && cargo build --release --offline -q $FEAT 2>"$WORK/build.log"); then
    echo "SEED $name: does not build"; git -C "$WORK/repo" checkout -q -- .; continue
  fi
  line=""
  for c in $id ${EXTRA:-}; do
    o=$("$WORK/verif/harness/target/release/vcheck" "$c" --tier quick --no-evidence --seed "${VERIF_SEED:-0}" 2>&1); rc=$?
    sig=$(echo "$o" | grep -E "^(failure|corpus failure)" | head -1 | sed -E 's/^(corpus )?failure \[([^]]*)\].*/\2/')
    line="$line $c:rc=$rc[$sig]"
  done
  echo "SEED $name:$line"
  git -C "$WORK/repo" checkout -q -- .
done
