#!/usr/bin/env python3
"""Regenerates /verif/MANIFEST.json from the table below (run after adding a check)."""
import json, subprocess, sys

HOOK_COMMITS = ["6aeeea4"]

# id -> (engine, level category, level text, technique, design_ref, level_note)
CHECKS = {
 "C06": ("kv", "exploration",
         "Model-based differential testing of the write-cache against a stack of BTreeMaps after every operation, for generated bases, nested programs (depth <= 6/8), all bound shapes and both orders, plus exhaustive bound sweeps at sampled states. Gives 'no disagreement on N generated programs', not absence.",
         "model-based property testing (proptest-driven byte generator, reference ordered map, shrinking to replay file)",
         "DESIGN.md 4/C06",
         "Trusts cosmwasm-std MockStorage as bottom layer, serde/proptest, and that the verif feature only re-exports the private types."),
 "C07": ("prefix", "exploration",
         "Model-based testing of prefixed/multilevel views (read-only and mutable, through App's public accessors) against the window of a reference map of raw keys under an independently written length-prefix encoding; adversarial namespaces (empty path, 0xFF tails, 65535-byte all-FF segment, segments spelling other prefixes) and raw keys placed just below/above each window; sub-window/disjointness relation between two related paths. 'No disagreement on N generated cases'.",
         "model-based property testing (proptest-driven byte generator, reference raw-key map + reference encoding, shrinking to replay file)",
         "DESIGN.md 4/C07",
         "Trusts MockStorage as base store; segments > 65535 bytes excluded (documented panic)."),
 "C18": ("addr", "exploration",
         "Round-trip and differential testing of the three address codecs: every generated or corrupted string is judged by an independent reference bech32/bech32m decoder (BIP-173/350) and addr_validate/addr_canonicalize must agree with it; determinism, trait-vs-Api agreement and cross-prefix/cross-variant rejection on every case; thorough enumerates all single-character substitutions over a grid of codecs x prefixes x lengths.",
         "property-based differential testing against a reference decoder (proptest-driven byte generator, shrinking to replay file)",
         "DESIGN.md 4/C18",
         "Trusts sha2 and the reference decoder in harness/src/engines/addr.rs; prefixes restricted to lower-case valid HRPs."),
 "C09": ("bank", "exploration",
         "Model-based testing of the bank module through App (execute, sudo, send_tokens, init_balance and contract-initiated transfers with attached funds): after every operation of a generated history every Balance/AllBalances/Supply answer for every account and denomination is compared with a reference ledger, Ok/Err with the ledger's verdict, and failed operations with a byte-identical root-storage scan.",
         "model-based property testing over operation histories (proptest-driven byte generator with state-dependent amounts, reference ledger, shrinking to replay file)",
         "DESIGN.md 4/C09",
         "Amounts capped so that no total reaches 2^128 (statement's precondition); recipients are valid bech32 addresses."),
 "C20": ("builder", "exploration",
         "Generated AppBuilder step sequences (0-14 steps, repetition) driven through the type-state builder by a polymorphically recursive generic function, observed slot by slot and compared with a last-write-wins reference plus a metamorphic check (canonical and reversed order of the same final assignment give the identical observation record); generated ContractWrapper step sequences observed via checksum() and all six entry points. All ordered builder pairs and wrapper pairs/triples are enumerated exhaustively in every run.",
         "property-based testing with exhaustive small-scope enumeration of step pairs (proptest-driven byte generator, reference assignment map, metamorphic reorder)",
         "DESIGN.md 4/C20",
         "Marker components are written in the harness; custom slot restricted to Empty message types; wrapper steps restricted to the default generic parameters."),
 "C01": ("tree", "fault_enumeration",
         'Every generated call (execute, execute_multi, sudo, wasm_sudo, Executor helpers) is executed once per failure site reached in its message tree with that site flipped, plus multi-site sets, from a byte-identical pre-state; Err or panic must leave root storage byte-identical (model-free), Ok must match the reference interpreter in trace, responses and full observable state; execute_multi arity/order; differential against one-by-one execution for attribution.',
         'fault enumeration over generated message trees + model-based differential testing (proptest-driven byte generator, shrinking to replay file)',
         'DESIGN.md 3, 4/C01',
         'Trusts the scripted contracts and the reference interpreter under harness/src/engines/tree (written from the property statements, clone/restore rollback), cosmwasm-std types/serialisation, and instantiate2_address. Generator bounds: depth<=4 (6 thorough), <=14 (40) nodes per tree.'),
 "C02": ("tree", "fault_enumeration",
         "Same fault enumeration, judged on sub-message rollback: Ok/Err, the complete invocation trace (including rolled-back calls, each node's full storage scan at entry) and the post-state must equal the reference interpreter whose rollback is clone/restore; catching decided by reply_on and reply outcome.",
         'fault enumeration over generated message trees + reference interpreter (clone/restore rollback)',
         'DESIGN.md 3, 4/C02',
         'Trusts the scripted contracts and the reference interpreter under harness/src/engines/tree (written from the property statements, clone/restore rollback), cosmwasm-std types/serialisation, and instantiate2_address. Generator bounds: depth<=4 (6 thorough), <=14 (40) nodes per tree.'),
 "C03": ("tree", "exploration",
         'Reply invocations (which contract, position in the depth-first order, exactly-once, id, payload, ok/err, carried events/data) of the complete out-of-band trace compared with the reference interpreter over generated trees with duplicate ids, long/odd payloads and all four modes.',
         'model-based property testing over generated message trees (out-of-band invocation trace vs reference interpreter)',
         'DESIGN.md 3, 4/C03',
         'Trusts the scripted contracts and the reference interpreter under harness/src/engines/tree (written from the property statements, clone/restore rollback), cosmwasm-std types/serialisation, and instantiate2_address. Generator bounds: depth<=4 (6 thorough), <=14 (40) nodes per tree.'),
 "C04": ("tree", "exploration",
         'AppResponse events and data of every successful generated call, and events/data delivered inside every Reply, compared with an independent implementation of the composition rules (hand-encoded protobuf wrappers).',
         'model-based property testing over generated message trees (independent event/data composition)',
         'DESIGN.md 3, 4/C04',
         'Trusts the scripted contracts and the reference interpreter under harness/src/engines/tree (written from the property statements, clone/restore rollback), cosmwasm-std types/serialisation, and instantiate2_address. Generator bounds: depth<=4 (6 thorough), <=14 (40) nodes per tree.'),
 "C05": ("tree", "exploration",
         'Sender, funds, env.contract.address, env.block and own balance at entry recorded by every scripted entry point compared with the reference over generated call chains with funds relative to balances and block updates; overdraft must not run the callee; balances afterwards.',
         'model-based property testing over generated call chains (out-of-band invocation trace vs reference interpreter)',
         'DESIGN.md 3, 4/C05',
         'Trusts the scripted contracts and the reference interpreter under harness/src/engines/tree (written from the property statements, clone/restore rollback), cosmwasm-std types/serialisation, and instantiate2_address. Generator bounds: depth<=4 (6 thorough), <=14 (40) nodes per tree.'),
 "C08": ("tree", "exploration",
         "Generated contracts write hostile keys (other modules' and contracts' raw prefixes); every node's full scan at entry, raw queries, dump_wasm_raw and contract_storage must equal the contract's own expected storage, and no other owner's data may change.",
         'model-based property testing with adversarial storage keys (non-interference + agreement of four readers)',
         'DESIGN.md 3, 4/C08',
         'Trusts the scripted contracts and the reference interpreter under harness/src/engines/tree (written from the property statements, clone/restore rollback), cosmwasm-std types/serialisation, and instantiate2_address. Generator bounds: depth<=4 (6 thorough), <=14 (40) nodes per tree.'),
 "C10": ("tree", "exploration",
         'Queries of every kind issued at entry and after own writes at every position of generated trees (incl. nested smart queries and reply handlers after caught failures) compared with the reference evaluated on the state at that point; App-level query batches issued twice with storage scans before/after (purity, idempotence, committed state).',
         'model-based property testing over generated message trees (query results vs reference view; purity by storage scan)',
         'DESIGN.md 3, 4/C10',
         'Trusts the scripted contracts and the reference interpreter under harness/src/engines/tree (written from the property statements, clone/restore rollback), cosmwasm-std types/serialisation, and instantiate2_address. Generator bounds: depth<=4 (6 thorough), <=14 (40) nodes per tree.'),
 "C11": ("tree", "exploration",
         'Generated histories of code stores (auto, explicit incl. sparse/0/duplicate ids, duplicate_code) and instantiate/instantiate2/migrate calls (top-level, helpers, from contracts; salts from a small pool; failing and rolled-back attempts) compared with a reference registry: ids, CodeInfo, addresses (classic derivation re-implemented; salted via instantiate2_address), ContractInfo/contract_data, usability of every stored code.',
         'model-based property testing over registry histories (reference registry + metamorphic address determinism)',
         'DESIGN.md 4/C11',
         'Trusts the scripted contracts and the reference interpreter under harness/src/engines/tree (written from the property statements, clone/restore rollback), cosmwasm-std types/serialisation, and instantiate2_address. Generator bounds: depth<=4 (6 thorough), <=14 (40) nodes per tree.'),
 "C12": ("tree", "exploration",
         "Generated migrate / update-admin / clear-admin attempts by admins, former admins, strangers and contracts (sub-messages) compared with a reference {admin, code_id, kv}: success iff sender is current admin; new code's tag serves the migrate entry point and all later calls; storage kept; failures leave state unchanged.",
         'model-based property testing over admin/migration histories (reference access-control model)',
         'DESIGN.md 4/C12',
         'Trusts the scripted contracts and the reference interpreter under harness/src/engines/tree (written from the property statements, clone/restore rollback), cosmwasm-std types/serialisation, and instantiate2_address. Generator bounds: depth<=4 (6 thorough), <=14 (40) nodes per tree.'),
 "C13": ("tree", "fault_enumeration",
         'Attribute keys and event types drawn from a boundary grammar placed on responses of every entry point and depth; an independent predicate decides malformedness; a malformed node must behave exactly like a failed call (with fault flipping of every reached site), accepted strings must surface unchanged in the events.',
         'fault enumeration + grammar-based string generation against an independent validity predicate',
         'DESIGN.md 4/C13',
         'Trusts the scripted contracts and the reference interpreter under harness/src/engines/tree (written from the property statements, clone/restore rollback), cosmwasm-std types/serialisation, and instantiate2_address. Generator bounds: depth<=4 (6 thorough), <=14 (40) nodes per tree.'),
 "C19": ("tree", "exploration",
         'Differential between four executions of the same generated history (alone; interleaved step-by-step with another App in the same thread; in a second OS thread concurrently with a third; alone again): full transcripts incl. ids, addresses, checksums, traces and storage digests must be identical.',
         'differential (metamorphic) property testing between repeated and interleaved executions',
         'DESIGN.md 4/C19',
         'Trusts the scripted contracts and the reference interpreter under harness/src/engines/tree (written from the property statements, clone/restore rollback), cosmwasm-std types/serialisation, and instantiate2_address. Generator bounds: depth<=4 (6 thorough), <=14 (40) nodes per tree.'),
 "C17": ("routing", "exploration",
         "Every router slot holds a recording module that delegates to the crate's real keeper, AcceptingModule or FailingModule per generated configuration; generated messages (16 kinds), queries (9 kinds) and sudo calls are sent from top level, from chains of 1-3 contracts written for the chain's message type and from chains of Empty-typed contracts lifted by ContractWrapper; exactly-one delivery to the configured slot with sender and payload intact, caller-visible Ok/Err, rollback of failed modules (marker keys, sibling writes) and reply behaviour are asserted; the kind x origin x mode x reply_on cross product is enumerated in every run.",
         "property-based testing over module configurations with recording test doubles + exhaustive small-scope enumeration of (kind, origin, mode) cells",
         "DESIGN.md 4/C17",
         "Recording modules and puppets are written in the harness; with a real keeper in a slot only requests that keeper supports are sent."),
 "C14": ("staking", "exploration",
         "Generated staking histories executed through App and compared after every operation with an integer reference: balances, pool, supply, Delegation/AllDelegations answers; listed invalid operations must fail with byte-identical storage; every unbonding is paid exactly (folded through floor(x(1-p)) per slash) by the first block update at or after maturity and not earlier; panics of any operation or block update are violations.",
         "model-based property testing over operation histories with history invariants (state-dependent symbolic amounts, shrinking to replay file)",
         "DESIGN.md 4/C14",
         "Trusts the integer / 256-bit fixed-point reference in harness/src/engines/staking.rs; domain restricted to stakes <= 1e8 tokens, rate <= 1000 %, whole-second time steps (no overflow of the crate's 128-bit fixed point: the statement's precondition)."),
 "C15": ("staking", "exploration",
         "Same histories with the reward dimension on: at every step, for every positive delegation, withdrawn + shown rewards are checked against upper and lower accruals of the linear law (explicit tolerance 1e-6 token and one token per withdrawal + 1); every successful withdrawal pays exactly the shown amount to the current withdraw address, mints nothing else, resets the pending reward and leaves other pairs untouched; metamorphic re-run with extra reward checkpoints must give the same totals within (withdrawals+1) tokens.",
         "model-based property testing with interval (upper/lower bound) oracle + metamorphic relation (extra reward checkpoints)",
         "DESIGN.md 4/C15",
         "Trusts the integer / 256-bit fixed-point reference in harness/src/engines/staking.rs; domain restricted to stakes <= 1e8 tokens, rate <= 1000 %, whole-second time steps (no overflow of the crate's 128-bit fixed point: the statement's precondition)."),
 "C16": ("staking", "exploration",
         "Histories biased to slashes; around every slash all delegations, balances, pool and pending rewards are snapshotted and compared: slashed validator's delegations within [floor-chain, floor of exact scaling], never increased, removed for p = 1; everything else bit-identical; invalid slashes rejected without effect; later payouts of pending unbondings scaled per slash.",
         "model-based property testing with interval oracle for scaled stakes and before/after snapshots (non-interference)",
         "DESIGN.md 4/C16",
         "Trusts the integer / 256-bit fixed-point reference in harness/src/engines/staking.rs; domain restricted to stakes <= 1e8 tokens, rate <= 1000 %, whole-second time steps (no overflow of the crate's 128-bit fixed point: the statement's precondition)."),
}

NOT_YET = "check not built yet in this revision of /verif (work in progress; planned, see DESIGN.md section 4)"

def main():
    props = [json.loads(l) for l in open('/verif/properties.jsonl')]
    checks = []
    na = []
    for p in props:
        pid = p['id']
        if pid in CHECKS:
            eng, cat, text, tech, ref, note = CHECKS[pid]
            checks.append({
                "property_id": pid,
                "quick_cmd": f"./run.sh {pid} quick",
                "thorough_cmd": f"./run.sh {pid} thorough",
                "evidence_file": f"/verif/evidence/{pid}.json",
                "replay_cmd_template": f"./run.sh {pid} quick --replay {{path}}",
                "engine": eng,
                "level_claimed": {"category": cat, "text": text, "design_ref": ref},
                "level_note": note,
                "technique": tech,
            })
        else:
            na.append({"property_id": pid, "reason": NOT_YET})
    engines = {}
    for pid, v in CHECKS.items():
        engines.setdefault(v[0], []).append(pid)
    m = {
        "version": 1,
        "setup_cmd": "cd /verif/harness && CARGO_NET_OFFLINE=true cargo build --release --offline",
        "hooks": {
            "guard": "verif",
            "enable": "cargo feature `verif` of cw-multi-test, switched on by /verif/harness/Cargo.toml (path dependency on /repo with features verif,staking,stargate,cosmwasm_2_2)",
            "baseline_off_cmd": "cd /repo && cargo test --workspace --no-fail-fast --offline",
            "source_commits": HOOK_COMMITS,
            "add_only": True,
        },
        "engines": [
            {"name": k, "path": f"/verif/harness/src/engines/{k}.rs" , "serves_properties": sorted(v),
             "kind_free_text": "property-based testing engine (byte-driven generator + reference oracle) inside the vharness crate"}
            for k, v in sorted(engines.items())
        ],
        "checks": checks,
        "not_applicable": na,
        "notes": "All checks are property-based tests / fuzzers (proptest-driven byte generators shared with cargo-fuzz targets). Exit codes: 0 held, 1 VIOLATION, 2 inconclusive. known_findings.json lists open/fixed findings.",
    }
    json.dump(m, open('/verif/MANIFEST.json', 'w'), indent=1)
    try:
        import jsonschema
        jsonschema.validate(m, json.load(open('/root/.vp/MANIFEST.schema.json')))
        print("MANIFEST.json valid;", len(checks), "checks,", len(na), "not_applicable")
    except ImportError:
        print("jsonschema not importable here; wrote MANIFEST.json")

main()
