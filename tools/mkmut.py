#!/usr/bin/env python3
"""mkmut.py <name> <file-relative-to-/repo> <old> <new> [count]
Creates /verif/mutants/<name>.diff by replacing the first (or count-th, 1-based) occurrence of
<old> by <new> in the file, then restores /repo. Development tool (not a registered check)."""
import subprocess, sys
name, rel, old, new = sys.argv[1:5]
nth = int(sys.argv[5]) if len(sys.argv) > 5 else 1
p = '/repo/' + rel
s = open(p).read()
idx = -1
for _ in range(nth):
    idx = s.find(old, idx + 1)
    if idx < 0:
        sys.exit(f"pattern not found ({nth}): {old!r}")
s2 = s[:idx] + new + s[idx + len(old):]
open(p, 'w').write(s2)
d = subprocess.run(['git', '-C', '/repo', 'diff'], capture_output=True, text=True).stdout
open(f'/verif/mutants/{name}.diff', 'w').write(d)
subprocess.run(['git', '-C', '/repo', 'checkout', '--', rel], check=True)
print(f"wrote mutants/{name}.diff ({len(d.splitlines())} lines)")
