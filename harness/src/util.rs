//! Small shared helpers: hex-serialised byte strings, storage scans, panic capture.

use cosmwasm_std::{Order, Storage};
use serde::{Deserialize, Deserializer, Serialize, Serializer};
use std::cell::RefCell;
use std::collections::BTreeMap;
use std::panic::{catch_unwind, AssertUnwindSafe};

/// Byte string that serialises as lower-case hex (readable replay files).
#[derive(Clone, PartialEq, Eq, PartialOrd, Ord, Hash, Default)]
pub struct Hx(pub Vec<u8>);

impl std::fmt::Debug for Hx {
    fn fmt(&self, f: &mut std::fmt::Formatter<'_>) -> std::fmt::Result {
        write!(f, "x'{}'", hex::encode(&self.0))
    }
}

impl Serialize for Hx {
    fn serialize<S: Serializer>(&self, s: S) -> Result<S::Ok, S::Error> {
        s.serialize_str(&hex::encode(&self.0))
    }
}

impl<'de> Deserialize<'de> for Hx {
    fn deserialize<D: Deserializer<'de>>(d: D) -> Result<Self, D::Error> {
        let s = String::deserialize(d)?;
        hex::decode(&s).map(Hx).map_err(serde::de::Error::custom)
    }
}

impl From<Vec<u8>> for Hx {
    fn from(v: Vec<u8>) -> Self {
        Hx(v)
    }
}
impl From<&[u8]> for Hx {
    fn from(v: &[u8]) -> Self {
        Hx(v.to_vec())
    }
}

pub type Kv = BTreeMap<Vec<u8>, Vec<u8>>;

/// Full ascending scan of a store.
pub fn scan(s: &dyn Storage) -> Vec<(Vec<u8>, Vec<u8>)> {
    s.range(None, None, Order::Ascending).collect()
}

pub fn scan_map(s: &dyn Storage) -> Kv {
    s.range(None, None, Order::Ascending).collect()
}

/// Replace the whole content of a store.
pub fn restore(s: &mut dyn Storage, snapshot: &[(Vec<u8>, Vec<u8>)]) {
    let keys: Vec<Vec<u8>> = s
        .range(None, None, Order::Ascending)
        .map(|(k, _)| k)
        .collect();
    for k in keys {
        s.remove(&k);
    }
    for (k, v) in snapshot {
        s.set(k, v);
    }
}

pub fn hexs(b: &[u8]) -> String {
    if b.len() > 48 {
        format!("{}..({}B)", hex::encode(&b[..24]), b.len())
    } else {
        hex::encode(b)
    }
}

/// Human-readable first difference between two scans.
pub fn diff_scans(a: &[(Vec<u8>, Vec<u8>)], b: &[(Vec<u8>, Vec<u8>)]) -> Option<String> {
    if a == b {
        return None;
    }
    let ma: Kv = a.iter().cloned().collect();
    let mb: Kv = b.iter().cloned().collect();
    for (k, v) in &ma {
        match mb.get(k) {
            None => return Some(format!("key {} (value {}) missing afterwards", hexs(k), hexs(v))),
            Some(w) if w != v => {
                return Some(format!("key {} changed {} -> {}", hexs(k), hexs(v), hexs(w)))
            }
            _ => {}
        }
    }
    for (k, v) in &mb {
        if !ma.contains_key(k) {
            return Some(format!("new key {} = {}", hexs(k), hexs(v)));
        }
    }
    Some("scans differ in order/duplicates".into())
}

thread_local! {
    static LAST_PANIC: RefCell<Option<String>> = const { RefCell::new(None) };
}

/// Installs a process-wide silent panic hook that remembers the message per thread.
pub fn install_quiet_panic_hook() {
    std::panic::set_hook(Box::new(|info| {
        let msg = if let Some(s) = info.payload().downcast_ref::<&str>() {
            s.to_string()
        } else if let Some(s) = info.payload().downcast_ref::<String>() {
            s.clone()
        } else {
            "<non-string panic>".to_string()
        };
        let loc = info
            .location()
            .map(|l| format!("{}:{}", l.file(), l.line()))
            .unwrap_or_default();
        LAST_PANIC.with(|p| *p.borrow_mut() = Some(format!("{} @ {}", msg, loc)));
    }));
}

/// Runs `f`, converting a panic into `Err(message)`.
pub fn catch<T>(f: impl FnOnce() -> T) -> Result<T, String> {
    match catch_unwind(AssertUnwindSafe(f)) {
        Ok(v) => Ok(v),
        Err(_) => Err(LAST_PANIC
            .with(|p| p.borrow_mut().take())
            .unwrap_or_else(|| "<panic>".to_string())),
    }
}

/// Short, stable classifier for a panic message (drops concrete values).
pub fn panic_sig(msg: &str) -> String {
    let head: String = msg.chars().take(60).collect();
    let head = head.split(" @ ").next().unwrap_or("").to_string();
    let cleaned: String = head
        .chars()
        .map(|c| if c.is_ascii_digit() { '#' } else { c })
        .collect();
    format!("panic:{}", cleaned)
}

pub fn fnv(data: &[u8]) -> u64 {
    let mut h: u64 = 0xcbf29ce484222325;
    for b in data {
        h ^= *b as u64;
        h = h.wrapping_mul(0x100000001b3);
    }
    h
}

/// Reference derivation of the classic (unsalted) contract address:
/// sha256(sha256("module") ‖ "wasm\0" ‖ code_id_be ‖ instance_id_be)
pub fn classic_canonical(code_id: u64, instance_id: u64) -> cosmwasm_std::CanonicalAddr {
    use sha2::{Digest, Sha256};
    let mut key = b"wasm\0".to_vec();
    key.extend_from_slice(&code_id.to_be_bytes());
    key.extend_from_slice(&instance_id.to_be_bytes());
    let module = Sha256::digest(b"module");
    let mut h = Sha256::new();
    h.update(module);
    h.update(&key);
    h.finalize().to_vec().into()
}
