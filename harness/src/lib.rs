//! Verification harness for cw-multi-test (property-based testing / fuzzing), see /verif/DESIGN.md.
pub mod driver;
pub mod engines;
pub mod fuzz;
pub mod gen;
pub mod util;
