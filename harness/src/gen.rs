//! Byte-driven generator layer.
//!
//! Every random choice of every generator is decoded from a byte string that is produced by
//! proptest (`vec(any::<u8>(), 0..=N)`) or by libFuzzer. An exhausted input yields zeros, and
//! every generator is written so that choice 0 is the simplest alternative; mapping from bytes to
//! choices is monotone (`b * n >> 8`), so byte-level shrinking moves towards simpler cases.

pub struct Gen<'a> {
    data: &'a [u8],
    pos: usize,
}

impl<'a> Gen<'a> {
    pub fn new(data: &'a [u8]) -> Self {
        Gen { data, pos: 0 }
    }

    /// True when all input bytes have been consumed (all further choices are 0).
    pub fn exhausted(&self) -> bool {
        self.pos >= self.data.len()
    }

    pub fn consumed(&self) -> usize {
        self.pos
    }

    pub fn byte(&mut self) -> u8 {
        if self.pos < self.data.len() {
            let b = self.data[self.pos];
            self.pos += 1;
            b
        } else {
            0
        }
    }

    /// Uniform-ish choice in `0..n` (n >= 1), monotone in the consumed bytes.
    pub fn below(&mut self, n: usize) -> usize {
        if n <= 1 {
            return 0;
        }
        if n <= 256 {
            (self.byte() as usize * n) >> 8
        } else if n <= 65536 {
            let v = ((self.byte() as usize) << 8) | self.byte() as usize;
            (v * n) >> 16
        } else {
            let mut v: u128 = 0;
            for _ in 0..8 {
                v = (v << 8) | self.byte() as u128;
            }
            ((v * n as u128) >> 64) as usize
        }
    }

    /// Inclusive range.
    pub fn range(&mut self, lo: u64, hi: u64) -> u64 {
        debug_assert!(lo <= hi);
        let span = hi - lo;
        if span == u64::MAX {
            return self.u64();
        }
        let n = span + 1;
        if n <= 65536 {
            lo + self.below(n as usize) as u64
        } else {
            let mut v: u128 = 0;
            for _ in 0..8 {
                v = (v << 8) | self.byte() as u128;
            }
            lo + ((v * n as u128) >> 64) as u64
        }
    }

    pub fn u64(&mut self) -> u64 {
        let mut v = 0u64;
        for _ in 0..8 {
            v = (v << 8) | self.byte() as u64;
        }
        v
    }

    pub fn bool(&mut self) -> bool {
        self.byte() >= 128
    }

    /// True with probability num/den (false when exhausted).
    pub fn chance(&mut self, num: usize, den: usize) -> bool {
        // below(den) is in 0..den; the *last* `num` values count as true so that 0 => false.
        self.below(den) >= den - num
    }

    pub fn pick<T: Clone>(&mut self, items: &[T]) -> T {
        items[self.below(items.len())].clone()
    }

    pub fn pick_ref<'b, T>(&mut self, items: &'b [T]) -> &'b T {
        &items[self.below(items.len())]
    }

    /// Weighted choice; index 0 should be the simplest alternative.
    pub fn weighted(&mut self, weights: &[u32]) -> usize {
        let total: u32 = weights.iter().sum();
        let mut x = self.below(total as usize) as u32;
        for (i, w) in weights.iter().enumerate() {
            if x < *w {
                return i;
            }
            x -= *w;
        }
        weights.len() - 1
    }

    /// Byte string of length 0..=max_len with bytes from `alphabet` (or any byte if empty).
    pub fn bytes_from(&mut self, max_len: usize, alphabet: &[u8]) -> Vec<u8> {
        let len = self.below(max_len + 1);
        (0..len)
            .map(|_| {
                if alphabet.is_empty() {
                    self.byte()
                } else {
                    alphabet[self.below(alphabet.len())]
                }
            })
            .collect()
    }

    pub fn vec_of<T>(&mut self, max_len: usize, mut f: impl FnMut(&mut Gen<'a>) -> T) -> Vec<T> {
        let len = self.below(max_len + 1);
        (0..len).map(|_| f(self)).collect()
    }
}
