//! Entry point for the cargo-fuzz (libFuzzer) targets in /verif/fuzz: the fuzzer's bytes go
//! through the same generator and the same oracle as the proptest-driven checks.

use crate::driver::{exec_case_pub, load_open_signatures, shrink_structural_pub, write_replay_pub, Check, Tier};
use crate::engines;
use crate::gen::Gen;
use std::path::PathBuf;
use std::sync::Once;

static INIT: Once = Once::new();

fn root() -> PathBuf {
    PathBuf::from(std::env::var("VERIF_ROOT").unwrap_or_else(|_| "/verif".to_string()))
}

fn one<E: Check>(id: &str, data: &[u8]) {
    // libfuzzer-sys installs a hook that aborts on every panic; the checks rely on unwinding to
    // observe specified rejections (e.g. writes through read-only views), so replace it once
    INIT.call_once(|| {
        std::env::set_var("RUST_BACKTRACE", "0");
        std::env::set_var("RUST_LIB_BACKTRACE", "0");
        crate::util::install_quiet_panic_hook();
    });
    let check = E::new(id, Tier::Quick);
    let case = check.generate(&mut Gen::new(data));
    if let Err(f) = exec_case_pub(&check, &case) {
        if f.signature.starts_with("harness:") || load_open_signatures(&root(), id).contains(&f.signature) {
            return;
        }
        let (min, f2) = shrink_structural_pub(&check, case, &f.signature);
        let p = write_replay_pub(&root(), id, &f2, &serde_json::to_value(&min).unwrap());
        eprintln!("failure [{}]: {}", f2.signature, f2.message);
        eprintln!("VIOLATION property={} replay={}", id, p.display());
        std::process::abort();
    }
}

pub fn fuzz_one(id: &str, data: &[u8]) {
    match id {
        "C06" => one::<engines::kv::KvCheck>(id, data),
        "C07" => one::<engines::prefix::PrefixCheck>(id, data),
        "C09" => one::<engines::bank::BankCheck>(id, data),
        "C18" => one::<engines::addr::AddrCheck>(id, data),
        "C14" | "C15" | "C16" => one::<engines::staking::StakingCheck>(id, data),
        "C17" => one::<engines::routing::RoutingCheck>(id, data),
        _ => one::<engines::tree::TreeCheck>(id, data),
    }
}
