//! proptest-driven runner shared by all checks: sharding, shrinking, replay, known findings,
//! evidence.

use crate::gen::Gen;
use crate::util::{catch, fnv, install_quiet_panic_hook, panic_sig};
use proptest::test_runner::{Config, RngSeed, TestCaseError, TestError, TestRunner};
use serde::de::DeserializeOwned;
use serde::Serialize;
use serde_json::{json, Value};
use std::cell::{Cell, RefCell};
use std::collections::{BTreeMap, BTreeSet, HashSet};
use std::path::{Path, PathBuf};
use std::sync::atomic::{AtomicBool, Ordering};
use std::sync::Arc;
use std::time::{Duration, Instant};

#[derive(Clone, Copy, PartialEq, Eq, Debug)]
pub enum Tier {
    Quick,
    Thorough,
}

impl Tier {
    pub fn name(self) -> &'static str {
        match self {
            Tier::Quick => "quick",
            Tier::Thorough => "thorough",
        }
    }
    pub fn is_thorough(self) -> bool {
        self == Tier::Thorough
    }
}

/// A reproduced oracle failure. `signature` is a root-cause classifier (not an input hash).
#[derive(Clone, Debug)]
pub struct Failure {
    pub signature: String,
    pub message: String,
}

impl Failure {
    pub fn new(signature: impl Into<String>, message: impl Into<String>) -> Self {
        Failure {
            signature: signature.into(),
            message: message.into(),
        }
    }
}

#[macro_export]
macro_rules! fail {
    ($sig:expr, $($arg:tt)*) => {
        return Err($crate::driver::Failure::new($sig, format!($($arg)*)))
    };
}

#[macro_export]
macro_rules! ensure {
    ($cond:expr, $sig:expr, $($arg:tt)*) => {
        if !($cond) {
            return Err($crate::driver::Failure::new($sig, format!($($arg)*)));
        }
    };
}

/// Per-case / per-shard context: labels, counters, non-trivial marker.
#[derive(Default)]
pub struct Cx {
    pub labels: BTreeMap<String, u64>,
    pub nontrivial: bool,
    /// Engines may attach a compact description of the case for the evidence samples.
    pub sample_note: Option<Value>,
    counting: bool,
}

impl Cx {
    pub fn label(&mut self, l: &str) {
        if self.counting {
            *self.labels.entry(l.to_string()).or_insert(0) += 1;
        }
    }
    pub fn count(&mut self, l: &str, n: u64) {
        if self.counting {
            *self.labels.entry(l.to_string()).or_insert(0) += n;
        }
    }
    pub fn mark_nontrivial(&mut self) {
        self.nontrivial = true;
    }
}

#[derive(Clone)]
pub struct Spec {
    pub id: &'static str,
    /// "exploration" | "fault_enumeration" | ...
    pub level: &'static str,
    pub rule: &'static str,
    pub assumptions: Vec<&'static str>,
    /// minimum number of distinct non-trivial cases for a run to count (else exit 2)
    pub floor_quick: u64,
}

#[derive(Clone, Copy)]
pub struct Budget {
    pub cases: u32,
    pub max_bytes: usize,
}

pub trait Check {
    type Case: Serialize + DeserializeOwned + Clone;
    fn new(id: &str, tier: Tier) -> Self;
    fn spec(id: &str) -> Spec;
    fn budget(id: &str, tier: Tier) -> Budget;
    fn generate(&self, g: &mut Gen) -> Self::Case;
    fn execute(&self, case: &Self::Case, cx: &mut Cx) -> Result<(), Failure>;
    /// Structural simplifications of a failing case (each strictly "smaller").
    fn shrink(&self, _case: &Self::Case) -> Vec<Self::Case> {
        vec![]
    }
    /// Deterministic (enumerated) cases executed before the random ones.
    fn fixed_cases(&self, _tier: Tier) -> Vec<Self::Case> {
        vec![]
    }
    /// True if fixed_cases enumerate a stated finite space completely.
    fn fixed_exhaustive() -> bool {
        false
    }
}

pub struct Opts {
    pub id: String,
    pub tier: Tier,
    pub seed: u64,
    pub replay: Option<PathBuf>,
    pub root: PathBuf,
    pub threads: usize,
    /// multiply case budget (for ad-hoc deep runs)
    pub scale: f64,
    pub no_evidence: bool,
    /// alternative per-run case budget / used by fuzz-corpus replays
    pub bytes_inputs: Vec<PathBuf>,
}

#[derive(Default)]
struct ShardOut {
    evaluations: u64,
    labels: BTreeMap<String, u64>,
    nontrivial: HashSet<u64>,
    samples: Vec<Value>,
    excluded_known: BTreeMap<String, u64>,
    failures: Vec<(Failure, Value)>,
}

#[derive(Clone, Debug)]
struct Known {
    property: String,
    signature: String,
    status: String,
    what: String,
    replay: Option<String>,
    commit: Option<String>,
}

fn load_known(root: &Path) -> Vec<Known> {
    let p = root.join("known_findings.json");
    let Ok(txt) = std::fs::read_to_string(&p) else {
        return vec![];
    };
    let v: Value = serde_json::from_str(&txt).expect("known_findings.json must be valid JSON");
    v["findings"]
        .as_array()
        .cloned()
        .unwrap_or_default()
        .into_iter()
        .map(|e| Known {
            property: e["property"].as_str().unwrap_or("").to_string(),
            signature: e["signature"].as_str().unwrap_or("").to_string(),
            status: e["status"].as_str().unwrap_or("").to_string(),
            what: e["what"].as_str().unwrap_or("").to_string(),
            replay: e["replay"].as_str().map(|s| s.to_string()),
            commit: e["commit"].as_str().map(|s| s.to_string()),
        })
        .collect()
}

fn truncate_json(v: &Value, budget: usize) -> Value {
    let s = v.to_string();
    if s.len() <= budget {
        v.clone()
    } else {
        let cut: String = s.chars().take(budget).collect();
        json!({ "truncated_json": format!("{}…", cut), "full_len": s.len() })
    }
}

fn exec_case<E: Check>(check: &E, case: &E::Case, cx: &mut Cx) -> Result<(), Failure> {
    match catch(|| check.execute(case, cx)) {
        Ok(r) => r,
        Err(msg) => Err(Failure::new(panic_sig(&msg), format!("panic: {}", msg))),
    }
}

fn shrink_structural<E: Check>(
    check: &E,
    mut case: E::Case,
    signature: &str,
    max_execs: usize,
) -> (E::Case, Failure) {
    let mut cx = Cx::default();
    let mut last = exec_case(check, &case, &mut cx).err().unwrap_or_else(|| {
        Failure::new(signature, "failure did not reproduce during structural shrinking")
    });
    let mut execs = 0usize;
    'outer: loop {
        let cands = check.shrink(&case);
        for cand in cands {
            if execs >= max_execs {
                break 'outer;
            }
            execs += 1;
            let mut cx = Cx::default();
            if let Err(f) = exec_case(check, &cand, &mut cx) {
                if f.signature == signature {
                    case = cand;
                    last = f;
                    continue 'outer;
                }
            }
        }
        break;
    }
    (case, last)
}

fn write_replay(root: &Path, id: &str, f: &Failure, case: &Value) -> PathBuf {
    let dir = root.join("replays");
    let _ = std::fs::create_dir_all(&dir);
    let h = fnv(f.signature.as_bytes()) & 0xffff_ffff;
    let p = dir.join(format!("{}-{:08x}.json", id, h));
    let doc = json!({
        "property": id,
        "signature": f.signature,
        "message": f.message,
        "case": case,
    });
    std::fs::write(&p, serde_json::to_string_pretty(&doc).unwrap()).expect("write replay");
    p
}

fn shard_seed(seed: u64, shard: usize, id: &str) -> u64 {
    let mut b = Vec::new();
    b.extend_from_slice(&seed.to_be_bytes());
    b.extend_from_slice(&(shard as u64).to_be_bytes());
    b.extend_from_slice(id.as_bytes());
    fnv(&b)
}

fn run_shard<E: Check>(
    opts: &Opts,
    shard: usize,
    nshards: usize,
    open_sigs: &BTreeSet<String>,
    stop: &AtomicBool,
) -> ShardOut {
    let check = E::new(&opts.id, opts.tier);
    let budget = E::budget(&opts.id, opts.tier);
    let out = RefCell::new(ShardOut::default());
    let failed = Cell::new(false);
    let last_nontrivial = Cell::new(false);
    // VERIF_DUMP_SEEDS=<dir>: write the raw generator bytes of a few non-trivial cases (seed corpus
    // for the libFuzzer targets, which share the generator)
    let dump_dir: Option<PathBuf> = std::env::var("VERIF_DUMP_SEEDS").ok().map(PathBuf::from);
    let dumped = Cell::new(0u32);

    // one case through the oracle, with bookkeeping
    let run_one = |case: &E::Case| -> Result<(), Failure> {
        let counting = !failed.get();
        let mut cx = Cx {
            counting,
            ..Default::default()
        };
        let r = exec_case(&check, case, &mut cx);
        let mut o = out.borrow_mut();
        if counting {
            o.evaluations += 1;
            for (k, v) in cx.labels {
                *o.labels.entry(k).or_insert(0) += v;
            }
        }
        match r {
            Ok(()) => {
                last_nontrivial.set(cx.nontrivial);
                if counting && cx.nontrivial {
                    let js = serde_json::to_vec(case).unwrap();
                    let h = fnv(&js);
                    if o.nontrivial.insert(h) && o.samples.len() < 2 {
                        let v: Value = cx
                            .sample_note
                            .unwrap_or_else(|| serde_json::from_slice(&js).unwrap());
                        o.samples.push(truncate_json(&v, 6000));
                    }
                }
                Ok(())
            }
            Err(f) => {
                if open_sigs.contains(&f.signature) {
                    if counting {
                        *o.excluded_known.entry(f.signature.clone()).or_insert(0) += 1;
                    }
                    Ok(())
                } else {
                    Err(f)
                }
            }
        }
    };

    // 1. enumerated cases (round-robin over shards)
    let fixed = check.fixed_cases(opts.tier);
    for (i, case) in fixed.iter().enumerate() {
        if i % nshards != shard {
            continue;
        }
        if stop.load(Ordering::Relaxed) {
            break;
        }
        if let Err(f) = run_one(case) {
            failed.set(true);
            stop.store(true, Ordering::Relaxed);
            let (min, f2) = shrink_structural(&check, case.clone(), &f.signature, 3000);
            out.borrow_mut()
                .failures
                .push((f2, serde_json::to_value(&min).unwrap()));
            return out.into_inner();
        }
    }

    // 2. generated cases
    let cases = ((budget.cases as f64 * opts.scale) as u32).div_ceil(nshards as u32).max(1);
    let config = Config {
        cases,
        failure_persistence: None,
        rng_seed: RngSeed::Fixed(shard_seed(opts.seed, shard, &opts.id)),
        max_shrink_iters: 4000,
        max_global_rejects: 0,
        verbose: 0,
        ..Config::default()
    };
    let mut runner = TestRunner::new(config);
    let strat = proptest::collection::vec(proptest::num::u8::ANY, 0..=budget.max_bytes);
    let first_sig: RefCell<Option<String>> = RefCell::new(None);
    let result = runner.run(&strat, |bytes| {
        if stop.load(Ordering::Relaxed) && !failed.get() {
            return Ok(());
        }
        let mut g = Gen::new(&bytes);
        let case = check.generate(&mut g);
        match run_one(&case) {
            Ok(()) => {
                if let Some(dir) = &dump_dir {
                    if last_nontrivial.get() && dumped.get() < 3 && shard < 8 {
                        let _ = std::fs::create_dir_all(dir);
                        let _ = std::fs::write(dir.join(format!("seed-{}-{}", shard, dumped.get())), &bytes[..g.consumed().min(bytes.len())]);
                        dumped.set(dumped.get() + 1);
                    }
                }
                Ok(())
            }
            Err(f) => {
                // during shrinking only the *same* root cause counts as "still failing"
                let mut fs = first_sig.borrow_mut();
                match &*fs {
                    None => {
                        *fs = Some(f.signature.clone());
                        failed.set(true);
                        stop.store(true, Ordering::Relaxed);
                        Err(TestCaseError::fail(f.signature))
                    }
                    Some(s) if *s == f.signature => Err(TestCaseError::fail(f.signature)),
                    Some(_) => Ok(()),
                }
            }
        }
    });
    match result {
        Ok(()) => {}
        Err(TestError::Fail(reason, bytes)) => {
            let mut g = Gen::new(&bytes);
            let case = check.generate(&mut g);
            let Some(sig) = first_sig.borrow().clone() else {
                // not an oracle failure: something panicked outside the guarded call
                out.borrow_mut().failures.push((Failure::new("harness:panic-outside-check", format!("proptest reports: {}", reason)), serde_json::to_value(&case).unwrap_or(Value::Null)));
                return out.into_inner();
            };
            let (min, f2) = shrink_structural(&check, case, &sig, 3000);
            out.borrow_mut()
                .failures
                .push((f2, serde_json::to_value(&min).unwrap()));
        }
        Err(TestError::Abort(r)) => {
            out.borrow_mut().failures.push((
                Failure::new("harness:abort", format!("proptest aborted: {}", r)),
                Value::Null,
            ));
        }
    }
    out.into_inner()
}

fn replay_file<E: Check>(id: &str, tier: Tier, path: &Path) -> Result<(), Failure> {
    let txt = std::fs::read_to_string(path)
        .map_err(|e| Failure::new("harness:io", format!("cannot read {}: {}", path.display(), e)))?;
    let doc: Value = serde_json::from_str(&txt)
        .map_err(|e| Failure::new("harness:json", format!("bad replay json: {}", e)))?;
    let case: E::Case = serde_json::from_value(doc["case"].clone())
        .map_err(|e| Failure::new("harness:json", format!("bad case in replay: {}", e)))?;
    let check = E::new(id, tier);
    let mut cx = Cx::default();
    exec_case(&check, &case, &mut cx)
}

/// Entry point used by `vcheck`. Returns the process exit code.
pub fn run_check<E: Check>(opts: Opts) -> i32 {
    install_quiet_panic_hook();
    let spec = E::spec(&opts.id);
    let id = spec.id;
    let t0 = Instant::now();

    // explicit replay of one file
    if let Some(path) = &opts.replay {
        return match replay_file::<E>(id, opts.tier, path) {
            Ok(()) => {
                println!("replay {}: property {} holds on this case", path.display(), id);
                0
            }
            Err(f) if f.signature.starts_with("harness:") => {
                eprintln!("replay error: {}", f.message);
                2
            }
            Err(f) => {
                println!("replay failure [{}]: {}", f.signature, f.message);
                println!("VIOLATION property={} replay={}", id, path.display());
                1
            }
        };
    }

    // watchdog: a hang is "inconclusive" (exit 2), never a violation
    let limit = std::env::var("VERIF_WALL_LIMIT")
        .ok()
        .and_then(|s| s.parse::<u64>().ok())
        .unwrap_or(if opts.tier.is_thorough() { 7200 } else { 900 });
    {
        let id = id.to_string();
        std::thread::spawn(move || {
            std::thread::sleep(Duration::from_secs(limit));
            println!("INCONCLUSIVE property={} watchdog after {}s", id, limit);
            std::process::exit(2);
        });
    }

    let known: Vec<Known> = load_known(&opts.root)
        .into_iter()
        .filter(|k| k.property == id)
        .collect();
    let open_sigs: BTreeSet<String> = known
        .iter()
        .filter(|k| k.status == "open")
        .map(|k| k.signature.clone())
        .collect();

    let mut violations: Vec<(String, PathBuf)> = vec![];
    let mut known_lines: Vec<String> = vec![];

    // known open findings: re-confirm their concrete input, announce once
    for k in known.iter().filter(|k| k.status == "open") {
        let still = match &k.replay {
            Some(r) => match replay_file::<E>(id, opts.tier, &opts.root.join(r)) {
                Err(f) if f.signature == k.signature => "still reproduces",
                Err(_) => "listed input now fails differently",
                Ok(()) => "listed input no longer fails",
            },
            None => "no replay listed",
        };
        known_lines.push(format!(
            "KNOWN-FINDING: property={} {} [{}; {}]",
            id, k.what, k.signature, still
        ));
    }

    // regression corpus (minimised past failures, incl. inputs of fixed findings): replayed first
    let mut corpus_replayed = 0u64;
    let corpus_dir = opts.root.join("corpus").join(id);
    if let Ok(rd) = std::fs::read_dir(&corpus_dir) {
        let mut files: Vec<PathBuf> = rd
            .filter_map(|e| e.ok().map(|e| e.path()))
            .filter(|p| p.extension().map(|x| x == "json").unwrap_or(false))
            .collect();
        files.sort();
        for p in files {
            corpus_replayed += 1;
            match replay_file::<E>(id, opts.tier, &p) {
                Ok(()) => {}
                Err(f) if open_sigs.contains(&f.signature) => {}
                Err(f) => {
                    println!("corpus failure [{}]: {}", f.signature, f.message);
                    violations.push((f.signature.clone(), p.clone()));
                }
            }
        }
    }

    // sharded search
    let nshards = opts.threads.max(1);
    let stop = Arc::new(AtomicBool::new(!violations.is_empty()));
    let opts = Arc::new(opts);
    let open = Arc::new(open_sigs);
    let mut outs: Vec<ShardOut> = vec![];
    if violations.is_empty() {
        let handles: Vec<_> = (0..nshards)
            .map(|shard| {
                let opts = opts.clone();
                let open = open.clone();
                let stop = stop.clone();
                std::thread::Builder::new()
                    .stack_size(256 << 20)
                    .spawn(move || run_shard::<E>(&opts, shard, nshards, &open, &stop))
                    .unwrap()
            })
            .collect();
        for h in handles {
            match h.join() {
                Ok(o) => outs.push(o),
                Err(_) => {
                    println!("INCONCLUSIVE property={} a shard thread died", id);
                    return 2;
                }
            }
        }
    }

    // merge
    let mut evaluations = corpus_replayed;
    let mut labels: BTreeMap<String, u64> = BTreeMap::new();
    let mut nontrivial: HashSet<u64> = HashSet::new();
    let mut samples: Vec<Value> = vec![];
    let mut excluded: BTreeMap<String, u64> = BTreeMap::new();
    let mut seen_sigs: BTreeSet<String> = BTreeSet::new();
    let mut harness_problem = false;
    for o in outs {
        evaluations += o.evaluations;
        for (k, v) in o.labels {
            *labels.entry(k).or_insert(0) += v;
        }
        nontrivial.extend(o.nontrivial);
        for s in o.samples {
            if samples.len() < 4 {
                samples.push(s);
            }
        }
        for (k, v) in o.excluded_known {
            *excluded.entry(k).or_insert(0) += v;
        }
        for (f, case) in o.failures {
            if f.signature.starts_with("harness:") {
                // a defect of the machinery itself is never reported as a violation
                println!("INCONCLUSIVE property={} harness problem [{}]: {}", id, f.signature, f.message);
                harness_problem = true;
                continue;
            }
            if seen_sigs.insert(f.signature.clone()) {
                let p = write_replay(&opts.root, id, &f, &case);
                println!("failure [{}]: {}", f.signature, f.message);
                violations.push((f.signature, p));
            }
        }
    }

    let wall = t0.elapsed().as_secs_f64();
    let fixed_exhaustive = E::fixed_exhaustive();
    if samples.is_empty() {
        samples.push(json!("no non-trivial case was generated in this run"));
    }
    let evidence = json!({
        "property_id": id,
        "tier": opts.tier.name(),
        "seed": opts.seed,
        "level": spec.level,
        "coverage": {
            "evaluations": evaluations,
            "distinct_nontrivial": nontrivial.len(),
            "rule": spec.rule,
            "samples": samples,
            "labels": labels,
            "excluded_known": excluded,
            "corpus_replayed": corpus_replayed,
            "enumerated_part_exhaustive": fixed_exhaustive,
            "shards": nshards,
        },
        "assumptions": spec.assumptions,
        "wall_s": wall,
        "violations": violations.len(),
    });
    if !opts.no_evidence {
        let dir = opts.root.join("evidence");
        let _ = std::fs::create_dir_all(&dir);
        std::fs::write(
            dir.join(format!("{}.json", id)),
            serde_json::to_string_pretty(&evidence).unwrap(),
        )
        .expect("write evidence");
    }

    for l in &known_lines {
        println!("{}", l);
    }
    for k in known.iter().filter(|k| k.status == "fixed") {
        println!(
            "note: fixed finding property={} commit={} {} (its input is replayed from corpus/)",
            id,
            k.commit.clone().unwrap_or_default(),
            k.what
        );
    }
    println!(
        "{} {} seed={} evaluations={} distinct_nontrivial={} excluded_known={} wall={:.1}s",
        id,
        opts.tier.name(),
        opts.seed,
        evaluations,
        nontrivial.len(),
        excluded.values().sum::<u64>(),
        wall
    );
    if !violations.is_empty() {
        for (_sig, p) in &violations {
            println!("VIOLATION property={} replay={}", id, p.display());
        }
        return 1;
    }
    if harness_problem {
        return 2;
    }
    let floor = if opts.tier.is_thorough() {
        spec.floor_quick * 2
    } else {
        spec.floor_quick
    };
    let floor = ((floor as f64) * opts.scale.min(1.0)) as u64;
    if (nontrivial.len() as u64) < floor.max(2) {
        let gated: u64 = labels.iter().filter(|(k, _)| k.starts_with("gated:")).map(|(_, v)| *v).sum();
        println!(
            "INCONCLUSIVE property={} only {} distinct non-trivial cases (floor {}): {}",
            id,
            nontrivial.len(),
            floor.max(2),
            if gated > 0 { format!("{} cases were cut short because the run diverged from the reference for reasons owned by other properties (see labels in the evidence)", gated) } else { "generator starved".to_string() }
        );
        return 2;
    }
    println!("OK property={}", id);
    0
}

// ---- thin public wrappers for the libFuzzer entry point (src/fuzz.rs)

pub fn exec_case_pub<E: Check>(check: &E, case: &E::Case) -> Result<(), Failure> {
    let mut cx = Cx::default();
    exec_case(check, case, &mut cx)
}

pub fn shrink_structural_pub<E: Check>(check: &E, case: E::Case, signature: &str) -> (E::Case, Failure) {
    shrink_structural(check, case, signature, 1500)
}

pub fn write_replay_pub(root: &Path, id: &str, f: &Failure, case: &Value) -> PathBuf {
    write_replay(root, id, f, case)
}

pub fn load_open_signatures(root: &Path, id: &str) -> BTreeSet<String> {
    load_known(root).into_iter().filter(|k| k.property == id && k.status == "open").map(|k| k.signature).collect()
}
