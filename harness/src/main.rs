use std::path::PathBuf;
use vharness::driver::{run_check, Opts, Tier};
use vharness::engines;

fn usage() -> ! {
    eprintln!("usage: vcheck <C01..C20> [--tier quick|thorough] [--seed N] [--replay FILE] [--threads N] [--scale X] [--no-evidence]");
    std::process::exit(2)
}

fn main() {
    // error values of anyhow / cosmwasm-std capture a backtrace when these are set, which is slow
    // and takes a process-wide lock; the checks never look at backtraces
    std::env::set_var("RUST_BACKTRACE", "0");
    std::env::set_var("RUST_LIB_BACKTRACE", "0");
    let args: Vec<String> = std::env::args().skip(1).collect();
    if args.is_empty() {
        usage();
    }
    if args[0] == "--c19-child" && args.len() == 3 {
        // internal: phase F of the C19 check (the history alone in a fresh process)
        let job: vharness::engines::tree::det::ChildJob = serde_json::from_slice(&std::fs::read(&args[1]).expect("input")).expect("job");
        std::panic::set_hook(Box::new(|_| {}));
        let t = vharness::engines::tree::det::child_transcript(job);
        std::fs::write(&args[2], serde_json::to_vec(&t).unwrap()).expect("output");
        return;
    }
    let id = args[0].clone();
    let mut tier = match std::env::var("VERIF_TIER").as_deref() {
        Ok("thorough") => Tier::Thorough,
        _ => Tier::Quick,
    };
    let mut seed: u64 = std::env::var("VERIF_SEED")
        .ok()
        .and_then(|s| s.trim().parse::<i128>().ok())
        .map(|v| v as u64)
        .unwrap_or(0);
    let mut replay = None;
    let mut threads = std::thread::available_parallelism().map(|n| n.get()).unwrap_or(8).min(16);
    let mut scale = 1.0f64;
    let mut no_evidence = false;
    let mut i = 1;
    while i < args.len() {
        match args[i].as_str() {
            "--tier" => {
                i += 1;
                tier = match args.get(i).map(|s| s.as_str()) {
                    Some("quick") => Tier::Quick,
                    Some("thorough") => Tier::Thorough,
                    _ => usage(),
                };
            }
            "--seed" => {
                i += 1;
                seed = args.get(i).and_then(|s| s.parse::<i128>().ok()).map(|v| v as u64).unwrap_or_else(|| usage());
            }
            "--replay" => {
                i += 1;
                replay = Some(PathBuf::from(args.get(i).cloned().unwrap_or_else(|| usage())));
            }
            "--threads" => {
                i += 1;
                threads = args.get(i).and_then(|s| s.parse().ok()).unwrap_or_else(|| usage());
            }
            "--scale" => {
                i += 1;
                scale = args.get(i).and_then(|s| s.parse().ok()).unwrap_or_else(|| usage());
            }
            "--no-evidence" => no_evidence = true,
            _ => usage(),
        }
        i += 1;
    }
    let root = PathBuf::from(std::env::var("VERIF_ROOT").unwrap_or_else(|_| "/verif".to_string()));
    let opts = Opts { id: id.clone(), tier, seed, replay, root, threads, scale, no_evidence, bytes_inputs: vec![] };
    let code = match id.as_str() {
        "C06" => run_check::<engines::kv::KvCheck>(opts),
        "C07" => run_check::<engines::prefix::PrefixCheck>(opts),
        "C18" => run_check::<engines::addr::AddrCheck>(opts),
        "C09" => run_check::<engines::bank::BankCheck>(opts),
        #[cfg(feature = "builder")]
        "C20" => run_check::<engines::builder::BuilderCheck>(opts),
        "C14" | "C15" | "C16" => run_check::<engines::staking::StakingCheck>(opts),
        "C17" => run_check::<engines::routing::RoutingCheck>(opts),
        "C19" => run_check::<engines::tree::det::DetCheck>(opts),
        "C01" | "C02" | "C03" | "C04" | "C05" | "C08" | "C10" | "C11" | "C12" | "C13" => run_check::<engines::tree::TreeCheck>(opts),
        _ => {
            eprintln!("unknown property id {}", id);
            2
        }
    };
    std::process::exit(code);
}
