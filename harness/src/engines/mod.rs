pub mod kv;
