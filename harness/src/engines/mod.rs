pub mod kv;
pub mod prefix;
