pub mod kv;
pub mod prefix;
pub mod addr;
pub mod bank;
#[cfg(feature = "builder")]
pub mod builder;
pub mod tree;
pub mod routing;
