pub mod kv;
pub mod prefix;
pub mod addr;
pub mod bank;
pub mod builder;
pub mod tree;
