//! C06 — the transactional KV overlay behaves exactly like an ordered map over its base.
//!
//! Model-based: a stack of BTreeMaps (push = clone, commit = replace parent, discard = pop) is
//! compared with the crate's write-cache (`verif_hooks::Overlay` = `StorageTransaction`) and its
//! `transactional` helper after every operation, at every nesting depth.

use crate::driver::{Budget, Check, Cx, Failure, Spec, Tier};
use crate::gen::Gen;
use crate::util::{hexs, scan, Hx, Kv};
use crate::{ensure, fail};
use cosmwasm_std::testing::MockStorage;
use cosmwasm_std::{Order, Storage};
use cw_multi_test::verif_hooks::{transactional, Overlay};
use serde::{Deserialize, Serialize};
use std::cell::RefCell;
use std::collections::BTreeSet;

#[derive(Clone, Debug, Serialize, Deserialize)]
pub enum Mode {
    /// Overlay::new .. prepare().commit(base)
    Commit,
    /// Overlay::new .. dropped
    Discard,
    /// transactional(base, |cache, _| Ok(..))
    TxOk,
    /// transactional(base, |cache, _| Err(..))
    TxErr,
}

#[derive(Clone, Debug, Serialize, Deserialize)]
pub enum Op {
    Set(Hx, Hx),
    Remove(Hx),
    Get(Hx),
    Range {
        start: Option<Hx>,
        end: Option<Hx>,
        desc: bool,
    },
    /// every (start, end, order) triple over the live keys, their neighbours, empty and None
    Sweep,
    /// `n` writes (sets and removes over a pool of `keys` keys, derived from `seed`) without
    /// intermediate probes: long per-layer histories (a replay log of hundreds of entries)
    Burst {
        n: u16,
        keys: u8,
        seed: u32,
    },
    Push {
        mode: Mode,
        body: Vec<Op>,
    },
}

#[derive(Clone, Debug, Serialize, Deserialize)]
pub struct Case {
    pub base: Vec<(Hx, Hx)>,
    pub prog: Vec<Op>,
}

pub struct KvCheck {
    tier: Tier,
}

const ALPHA: [u8; 4] = [0x00, 0x01, 0x61, 0xFF];

fn gen_key(g: &mut Gen) -> Vec<u8> {
    // very rarely: a key around 64 KiB (the largest length a two-byte length field holds, and one more)
    if g.chance(1, 250) {
        return vec![0x61; 65535 + g.below(3)];
    }
    // 0: short key over the collision alphabet; rarely a long or arbitrary key
    match g.weighted(&[20, 1, 1]) {
        0 => g.bytes_from(3, &ALPHA),
        1 => {
            let n = 4 + g.below(60);
            let b = g.pick(&ALPHA);
            let mut k = vec![b; n];
            if g.bool() {
                k.push(g.byte());
            }
            k
        }
        _ => g.bytes_from(6, &[]),
    }
}

fn gen_val(g: &mut Gen) -> Vec<u8> {
    let n = 1 + g.below(3);
    (0..n).map(|_| g.pick(&[0x01u8, 0x00, 0xFF, 0x62])).collect()
}

fn neighbour(g: &mut Gen, k: &[u8]) -> Vec<u8> {
    let mut k = k.to_vec();
    match g.below(5) {
        0 => {}
        1 => k.push(0x00),
        2 => {
            k.pop();
        }
        3 => {
            // predecessor-ish: decrement last byte
            if let Some(l) = k.last_mut() {
                *l = l.wrapping_sub(1);
            }
        }
        _ => {
            if let Some(l) = k.last_mut() {
                *l = l.wrapping_add(1);
            }
        }
    }
    k
}

fn gen_bound(g: &mut Gen, known: &[Vec<u8>]) -> Option<Hx> {
    match g.weighted(&[3, 6, 3, 1]) {
        0 => None,
        1 if !known.is_empty() => {
            let k = g.pick_ref(known).clone();
            Some(Hx(neighbour(g, &k)))
        }
        3 => Some(Hx(vec![])),
        _ => Some(Hx(gen_key(g))),
    }
}

thread_local! {
    static SWEEPS: std::cell::Cell<u32> = const { std::cell::Cell::new(0) };
}

fn gen_ops(g: &mut Gen, depth: usize, max_depth: usize, budget: &mut usize, known: &mut Vec<Vec<u8>>, sweep_w: u32) -> Vec<Op> {
    let mut ops = vec![];
    let n = 1 + g.below(10);
    for _ in 0..n {
        if *budget == 0 || g.exhausted() {
            break;
        }
        *budget -= 1;
        let push_w = if depth < max_depth { 5 } else { 0 };
        let op = match g.weighted(&[8, 5, 3, 7, push_w, sweep_w, 1]) {
            0 => {
                // set: mostly on known keys so that overwrites/delete-then-set happen
                let k = if !known.is_empty() && g.chance(2, 3) {
                    g.pick_ref(known).clone()
                } else {
                    gen_key(g)
                };
                known.push(k.clone());
                Op::Set(Hx(k), Hx(gen_val(g)))
            }
            1 => {
                let k = if !known.is_empty() && g.chance(4, 5) {
                    g.pick_ref(known).clone()
                } else {
                    gen_key(g)
                };
                Op::Remove(Hx(k))
            }
            2 => {
                let k = if !known.is_empty() && g.chance(2, 3) {
                    let k = g.pick_ref(known).clone();
                    neighbour(g, &k)
                } else {
                    gen_key(g)
                };
                Op::Get(Hx(k))
            }
            3 => Op::Range {
                start: gen_bound(g, known),
                end: gen_bound(g, known),
                desc: g.bool(),
            },
            4 => {
                let mode = match g.below(4) {
                    0 => Mode::Commit,
                    1 => Mode::Discard,
                    2 => Mode::TxOk,
                    _ => Mode::TxErr,
                };
                let body = gen_ops(g, depth + 1, max_depth, budget, known, sweep_w);
                Op::Push { mode, body }
            }
            6 => {
                let n = match g.below(3) {
                    0 => g.range(2, 40),
                    1 => g.range(40, 130),
                    _ => g.range(130, 600),
                } as u16;
                Op::Burst { n, keys: g.range(1, 12) as u8, seed: g.range(0, u32::MAX as u64) as u32 }
            }
            _ => {
                // exhaustive bound sweeps are expensive: at most two per program
                if SWEEPS.with(|c| c.get()) < 2 {
                    SWEEPS.with(|c| c.set(c.get() + 1));
                    Op::Sweep
                } else {
                    Op::Get(Hx(gen_key(g)))
                }
            }
        };
        ops.push(op);
    }
    ops
}

struct Layer<'a> {
    store: &'a dyn Storage,
    model: &'a Kv,
}

struct Run<'c> {
    cx: &'c mut Cx,
}

fn ref_range(model: &Kv, start: Option<&[u8]>, end: Option<&[u8]>, desc: bool) -> Vec<(Vec<u8>, Vec<u8>)> {
    let mut v: Vec<(Vec<u8>, Vec<u8>)> = model
        .iter()
        .filter(|(k, _)| start.map_or(true, |s| k.as_slice() >= s) && end.map_or(true, |e| k.as_slice() < e))
        .map(|(k, v)| (k.clone(), v.clone()))
        .collect();
    if desc {
        v.reverse();
    }
    v
}

fn check_range(store: &dyn Storage, model: &Kv, start: Option<&[u8]>, end: Option<&[u8]>, desc: bool, depth: usize) -> Result<usize, Failure> {
    let order = if desc { Order::Descending } else { Order::Ascending };
    let got: Vec<(Vec<u8>, Vec<u8>)> = store.range(start, end, order).collect();
    let gk: Vec<Vec<u8>> = store.range_keys(start, end, order).collect();
    let gv: Vec<Vec<u8>> = store.range_values(start, end, order).collect();
    ensure!(
        gk == got.iter().map(|(k, _)| k.clone()).collect::<Vec<_>>() && gv == got.iter().map(|(_, v)| v.clone()).collect::<Vec<_>>(),
        "C06:range-keys-values-disagree",
        "range({:?},{:?},desc={}) at depth {} lists {} entries but range_keys {} and range_values {}",
        start.map(hexs), end.map(hexs), desc, depth, got.len(), gk.len(), gv.len()
    );
    let want = ref_range(model, start, end, desc);
    // strictly monotone, each key at most once
    for w in got.windows(2) {
        let ok = if desc { w[0].0 > w[1].0 } else { w[0].0 < w[1].0 };
        ensure!(
            ok,
            "C06:range-not-strictly-ordered",
            "range({:?},{:?},desc={}) at depth {} yields {} then {}",
            start.map(hexs), end.map(hexs), desc, depth, hexs(&w[0].0), hexs(&w[1].0)
        );
    }
    if got != want {
        let sig = if got.len() > want.len() {
            "C06:range-extra-entries"
        } else if got.len() < want.len() {
            "C06:range-missing-entries"
        } else {
            "C06:range-wrong-entries"
        };
        fail!(
            sig,
            "range({:?},{:?},desc={}) at depth {}: got {:?}, ordered map gives {:?}",
            start.map(hexs), end.map(hexs), desc, depth,
            got.iter().map(|(k, v)| format!("{}={}", hexs(k), hexs(v))).collect::<Vec<_>>(),
            want.iter().map(|(k, v)| format!("{}={}", hexs(k), hexs(v))).collect::<Vec<_>>()
        );
    }
    Ok(got.len())
}

fn check_get(store: &dyn Storage, model: &Kv, k: &[u8], depth: usize) -> Result<(), Failure> {
    let got = store.get(k);
    let want = model.get(k).cloned();
    ensure!(
        got == want,
        "C06:get-mismatch",
        "get({}) at depth {}: got {:?}, ordered map gives {:?}",
        hexs(k), depth, got.as_deref().map(hexs), want.as_deref().map(hexs)
    );
    Ok(())
}

fn check_full(store: &dyn Storage, model: &Kv, what: &str, sig: &'static str) -> Result<(), Failure> {
    let got = scan(store);
    let want: Vec<_> = model.iter().map(|(k, v)| (k.clone(), v.clone())).collect();
    ensure!(
        got == want,
        sig,
        "{}: full scan {:?} but ordered map {:?}",
        what,
        got.iter().map(|(k, v)| format!("{}={}", hexs(k), hexs(v))).collect::<Vec<_>>(),
        want.iter().map(|(k, v)| format!("{}={}", hexs(k), hexs(v))).collect::<Vec<_>>()
    );
    Ok(())
}

fn check_lowers(lowers: &[Layer]) -> Result<(), Failure> {
    for (i, l) in lowers.iter().enumerate() {
        check_full(
            l.store,
            l.model,
            &format!("layer {} below a live cache was modified", i),
            "C06:base-modified-while-cache-alive",
        )?;
    }
    Ok(())
}

impl Run<'_> {
    #[allow(clippy::too_many_arguments)]
    fn level(
        &mut self,
        store: &mut dyn Storage,
        model: &mut Kv,
        ops: &[Op],
        depth: usize,
        lowers: &[Layer],
    ) -> Result<(), Failure> {
        // keys set / deleted in *this* layer (for the non-trivial rule)
        let mut set_here: BTreeSet<Vec<u8>> = BTreeSet::new();
        let mut del_here: BTreeSet<Vec<u8>> = BTreeSet::new();
        let mut opno: u64 = 0;
        for op in ops {
            opno += 1;
            match op {
                Op::Set(k, v) => {
                    store.set(&k.0, &v.0);
                    model.insert(k.0.clone(), v.0.clone());
                    set_here.insert(k.0.clone());
                    del_here.remove(&k.0);
                    check_get(store, model, &k.0, depth)?;
                    check_lowers(lowers)?;
                    self.probe(store, model, &k.0, opno, depth)?;
                }
                Op::Remove(k) => {
                    store.remove(&k.0);
                    model.remove(&k.0);
                    del_here.insert(k.0.clone());
                    set_here.remove(&k.0);
                    check_get(store, model, &k.0, depth)?;
                    check_lowers(lowers)?;
                    self.probe(store, model, &k.0, opno, depth)?;
                }
                Op::Get(k) => {
                    check_get(store, model, &k.0, depth)?;
                }
                Op::Range { start, end, desc } => {
                    let s = start.as_ref().map(|x| x.0.as_slice());
                    let e = end.as_ref().map(|x| x.0.as_slice());
                    let n = check_range(store, model, s, e, *desc, depth)?;
                    self.cx.label("range");
                    if let (Some(s), Some(e)) = (s, e) {
                        if s > e {
                            self.cx.label("range:inverted-bounds");
                        } else if s == e {
                            self.cx.label("range:equal-bounds");
                        }
                    }
                    if depth >= 1 {
                        self.cx.label("range:at-depth>=1");
                        if let Some(lower) = lowers.last() {
                            let inside = |k: &Vec<u8>| s.map_or(true, |s| k.as_slice() >= s) && e.map_or(true, |e| k.as_slice() < e);
                            let a = set_here.iter().any(inside);
                            let b = del_here.iter().any(|k| inside(k) && lower.model.contains_key(k));
                            let c = lower.model.keys().any(|k| inside(k) && !set_here.contains(k) && !del_here.contains(k));
                            if a && b && c && n > 0 {
                                self.cx.mark_nontrivial();
                                self.cx.label("range:nontrivial-merge");
                            }
                        }
                    }
                }
                Op::Sweep => {
                    self.sweep(store, model, depth)?;
                }
                Op::Burst { n, keys, seed } => {
                    // a deterministic function of the case (no RNG): xorshift over the seed
                    let mut x = (*seed as u64) | 1 << 33;
                    let mut next = || {
                        x ^= x << 13;
                        x ^= x >> 7;
                        x ^= x << 17;
                        x
                    };
                    let pool = (*keys).max(1) as u64;
                    for i in 0..*n {
                        let r = next();
                        let k = vec![0x61, (r % pool) as u8];
                        if (r >> 8) % 3 == 0 {
                            store.remove(&k);
                            model.remove(&k);
                            del_here.insert(k.clone());
                            set_here.remove(&k);
                        } else {
                            let v = vec![1 + ((r >> 16) % 250) as u8, (i % 251) as u8];
                            store.set(&k, &v);
                            model.insert(k.clone(), v);
                            set_here.insert(k.clone());
                            del_here.remove(&k);
                        }
                    }
                    self.cx.label(if *n >= 64 { "burst:>=64-writes" } else { "burst:<64-writes" });
                    check_full(store, model, "after a burst of writes", "C06:scan-mismatch")?;
                    check_lowers(lowers)?;
                }
                Op::Push { mode, body } => {
                    self.cx.label(match mode {
                        Mode::Commit => "push:commit",
                        Mode::Discard => "push:discard",
                        Mode::TxOk => "push:transactional-ok",
                        Mode::TxErr => "push:transactional-err",
                    });
                    self.cx.label(&format!("depth:{}", depth + 1));
                    let frozen = model.clone();
                    let mut child = model.clone();
                    match mode {
                        Mode::Commit | Mode::Discard => {
                            let log = {
                                let base_ref: &dyn Storage = &*store;
                                let mut ov = Overlay::new(base_ref);
                                let mut lowers2: Vec<Layer> = lowers.iter().map(|l| Layer { store: l.store, model: l.model }).collect();
                                lowers2.push(Layer { store: base_ref, model: &frozen });
                                self.level(&mut ov, &mut child, body, depth + 1, &lowers2)?;
                                check_full(&ov, &child, "cache before ending it", "C06:scan-mismatch")?;
                                check_lowers(&lowers2)?;
                                ov.prepare()
                            };
                            if matches!(mode, Mode::Commit) {
                                log.commit(store);
                                *model = child;
                                check_full(store, model, "base after commit", "C06:commit-mismatch")?;
                            } else {
                                drop(log);
                                check_full(store, model, "base after discard", "C06:discard-modified-base")?;
                            }
                        }
                        Mode::TxOk | Mode::TxErr => {
                            let inner_fail: RefCell<Option<Failure>> = RefCell::new(None);
                            let want_ok = matches!(mode, Mode::TxOk);
                            let res = {
                                let child_ref = &mut child;
                                let frozen_ref = &frozen;
                                let this = &mut *self;
                                transactional(store, |cache, base_ro| {
                                    let mut lowers2: Vec<Layer> = lowers.iter().map(|l| Layer { store: l.store, model: l.model }).collect();
                                    lowers2.push(Layer { store: base_ro, model: frozen_ref });
                                    let r = this
                                        .level(cache, child_ref, body, depth + 1, &lowers2)
                                        .and_then(|_| check_full(cache, child_ref, "cache before ending it", "C06:scan-mismatch"))
                                        .and_then(|_| check_lowers(&lowers2));
                                    if let Err(f) = r {
                                        *inner_fail.borrow_mut() = Some(f);
                                        return Err(anyhow::anyhow!("oracle failure"));
                                    }
                                    if want_ok {
                                        Ok(7u32)
                                    } else {
                                        Err(anyhow::anyhow!("scripted failure"))
                                    }
                                })
                            };
                            if let Some(f) = inner_fail.into_inner() {
                                return Err(f);
                            }
                            if want_ok {
                                ensure!(matches!(res, Ok(7)), "C06:transactional-result", "transactional returned {:?} for an Ok closure", res.map_err(|e| e.to_string()));
                                *model = child;
                                check_full(store, model, "base after transactional Ok", "C06:commit-mismatch")?;
                            } else {
                                ensure!(res.is_err(), "C06:transactional-result", "transactional returned Ok for an Err closure");
                                check_full(store, model, "base after transactional Err", "C06:discard-modified-base")?;
                            }
                        }
                    }
                    check_lowers(lowers)?;
                }
            }
        }
        Ok(())
    }

    /// after every write: one get of a derived key and one range with derived bounds
    fn probe(&mut self, store: &dyn Storage, model: &Kv, k: &[u8], opno: u64, depth: usize) -> Result<(), Failure> {
        let mut k2 = k.to_vec();
        k2.push(0);
        check_get(store, model, &k2, depth)?;
        let desc = opno % 2 == 0;
        match opno % 4 {
            0 => check_range(store, model, None, None, desc, depth)?,
            1 => check_range(store, model, Some(k), None, desc, depth)?,
            2 => check_range(store, model, None, Some(&k2), desc, depth)?,
            _ => check_range(store, model, Some(k), Some(&k2), desc, depth)?,
        };
        Ok(())
    }

    fn sweep(&mut self, store: &dyn Storage, model: &Kv, depth: usize) -> Result<(), Failure> {
        let mut cands: BTreeSet<Vec<u8>> = BTreeSet::new();
        cands.insert(vec![]);
        for (k, _) in scan(store) {
            let mut k2 = k.clone();
            k2.push(0);
            cands.insert(k2);
            cands.insert(k);
        }
        for k in model.keys() {
            cands.insert(k.clone());
        }
        let mut bounds: Vec<Option<Vec<u8>>> = vec![None];
        bounds.extend(cands.into_iter().take(24).map(Some));
        let mut n = 0u64;
        for s in &bounds {
            for e in &bounds {
                for desc in [false, true] {
                    check_range(store, model, s.as_deref(), e.as_deref(), desc, depth)?;
                    n += 1;
                }
            }
        }
        self.cx.label("sweep");
        self.cx.count("sweep:ranges", n);
        Ok(())
    }
}

fn shrink_ops(ops: &[Op]) -> Vec<Vec<Op>> {
    let mut out = vec![];
    // drop halves first, then single ops
    if ops.len() >= 4 {
        out.push(ops[..ops.len() / 2].to_vec());
        out.push(ops[ops.len() / 2..].to_vec());
    }
    for i in 0..ops.len() {
        let mut v = ops.to_vec();
        v.remove(i);
        out.push(v);
    }
    for i in 0..ops.len() {
        if let Op::Push { mode, body } = &ops[i] {
            // splice the body in place of the push
            let mut v = ops[..i].to_vec();
            v.extend(body.iter().cloned());
            v.extend(ops[i + 1..].iter().cloned());
            out.push(v);
            for b in shrink_ops(body) {
                let mut v = ops.to_vec();
                v[i] = Op::Push { mode: mode.clone(), body: b };
                out.push(v);
            }
        }
    }
    out
}

impl Check for KvCheck {
    type Case = Case;

    fn new(_id: &str, tier: Tier) -> Self {
        KvCheck { tier }
    }

    fn spec(_id: &str) -> Spec {
        Spec {
            id: "C06",
            level: "exploration",
            rule: "generated: base content (0-12 entries over keys built from {00,01,61,FF}, length 0-3, plus long/random keys, very rarely 65535-65537 bytes) and a nested program of set/remove/get/range/sweep/burst(2-600 unprobed writes over 1-12 keys)/push(commit|discard|transactional Ok|Err) ops, compared after every op with a stack of BTreeMaps; a case is non-trivial when it issues a range at depth>=1 whose interval contains an overlay-set key, an overlay-deleted base key and an untouched base key and returns at least one entry; distinct = distinct serialised case",
            assumptions: vec![
                "values are non-empty (MemoryStorage::set documents a panic for empty values)",
                "MockStorage (cosmwasm-std MemoryStorage) is a correct ordered map (bottom layer)",
                "the verif feature only re-exports StorageTransaction/transactional without changing them",
            ],
            floor_quick: 400,
        }
    }

    fn budget(_id: &str, tier: Tier) -> Budget {
        match tier {
            Tier::Quick => Budget { cases: 160_000, max_bytes: 700 },
            Tier::Thorough => Budget { cases: 2_000_000, max_bytes: 1400 },
        }
    }

    fn generate(&self, g: &mut Gen) -> Case {
        let nbase = g.below(13);
        let mut known = vec![];
        let mut base = vec![];
        for _ in 0..nbase {
            let k = gen_key(g);
            known.push(k.clone());
            base.push((Hx(k), Hx(gen_val(g))));
        }
        let (max_depth, mut budget, sweep_w) = match self.tier {
            Tier::Quick => (6, 60usize, 1),
            Tier::Thorough => (8, 120usize, 2),
        };
        SWEEPS.with(|c| c.set(0));
        let prog = gen_ops(g, 0, max_depth, &mut budget, &mut known, sweep_w);
        Case { base, prog }
    }

    fn execute(&self, case: &Case, cx: &mut Cx) -> Result<(), Failure> {
        let mut store = MockStorage::new();
        let mut model = Kv::new();
        for (k, v) in &case.base {
            if v.0.is_empty() {
                continue;
            }
            store.set(&k.0, &v.0);
            model.insert(k.0.clone(), v.0.clone());
        }
        let mut run = Run { cx };
        run.level(&mut store, &mut model, &case.prog, 0, &[])?;
        check_full(&store, &model, "bottom store at the end", "C06:commit-mismatch")
    }

    fn shrink(&self, case: &Case) -> Vec<Case> {
        let mut out = vec![];
        for i in 0..case.base.len() {
            let mut c = case.clone();
            c.base.remove(i);
            out.push(c);
        }
        for p in shrink_ops(&case.prog) {
            out.push(Case { base: case.base.clone(), prog: p });
        }
        out
    }
}
