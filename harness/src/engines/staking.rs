//! C14 / C15 / C16 — staking: token accounting, linear rewards, slashing.
//!
//! Generated histories of delegate / undelegate / redelegate / withdraw / set-withdraw-address /
//! slash / advance-block over several delegators and validators are executed through the public
//! App API and compared after every operation with a small reference that only uses integers and
//! checked 256-bit fixed point: per (delegator, validator) an interval [lo, hi] for the stake
//! (identical and exact until a slash leaves a remainder), a FIFO of pending unbondings, balances,
//! the pool, and upper/lower accruals of the linear reward law.

use crate::driver::{Budget, Check, Cx, Failure, Spec, Tier};
use crate::gen::Gen;
use crate::util::{catch, diff_scans, panic_sig, scan};
use cosmwasm_std::testing::mock_env;
use cosmwasm_std::{coin, Addr, Coin, Decimal, Decimal256, DistributionMsg, StakingMsg, Uint128, Uint256, Validator};
use cw_multi_test::{App, AppBuilder, BankSudo, Executor, IntoAddr, StakingInfo, StakingSudo, SudoMsg};
use serde::{Deserialize, Serialize};
use std::collections::{BTreeMap, BTreeSet, VecDeque};

/// the chain is configured with a bonded denomination of its own; the foreign denomination used by
/// the "foreign denomination" operations is the crate's *default* bonded denomination
const DENOM: &str = "ustake";
const FOREIGN: &str = "TOKEN";
const YEAR: u64 = 60 * 60 * 24 * 365;
const N_DELEGATORS: usize = 3;
const N_THIRD: usize = 2;

#[derive(Clone, Copy, Debug, Serialize, Deserialize, PartialEq, Eq)]
pub enum SAmt {
    Exact(u64),
    One,
    Half,
    All,
    AllPlus1,
    Zero,
}

#[derive(Clone, Copy, Debug, Serialize, Deserialize, PartialEq, Eq)]
pub enum PSpec {
    Zero,
    Tiny,
    Third,
    Half,
    Nearly,
    One,
    OnePlusTiny,
    Two,
    /// arbitrary fraction in 18-decimal atomics (<= 10^18)
    Atomics(u64),
}

impl PSpec {
    fn atomics(self) -> u128 {
        match self {
            PSpec::Zero => 0,
            PSpec::Tiny => 1,
            PSpec::Third => 333_333_333_333_333_333,
            PSpec::Half => 500_000_000_000_000_000,
            PSpec::Nearly => 999_999_999_999_999_999,
            PSpec::One => 1_000_000_000_000_000_000,
            PSpec::OnePlusTiny => 1_000_000_000_000_000_001,
            PSpec::Two => 2_000_000_000_000_000_000,
            PSpec::Atomics(a) => (a as u128) % 1_000_000_000_000_000_001,
        }
    }
}

#[derive(Clone, Debug, Serialize, Deserialize, PartialEq, Eq)]
pub enum SOp {
    /// (delegator, validator index (>= number of validators = unknown), amount, foreign denomination)
    Delegate(u8, u8, SAmt, bool),
    Undelegate(u8, u8, SAmt, bool),
    Redelegate(u8, u8, u8, SAmt, bool),
    Withdraw(u8, u8),
    /// delegator, target (0..N_DELEGATORS = a delegator, then third parties)
    SetWithdraw(u8, u8),
    Slash(u8, PSpec),
    /// advance block time by whole seconds
    Advance(u64),
    /// advance block time by an arbitrary number of nanoseconds
    AdvanceNanos(u64),
    /// reward checkpoint that must not change anything: a 0 % slash, executed only while the
    /// validator has delegations and was never slashed by a positive fraction (used by the
    /// path-independence twin, never generated)
    Checkpoint(u8),
}

#[derive(Clone, Debug, Serialize, Deserialize)]
pub struct Case {
    pub unbonding_time: u64,
    /// annual rate in 18-decimal atomics
    pub apr: u128,
    /// commission per validator in 18-decimal atomics (<= 10^18)
    pub commissions: Vec<u64>,
    pub funds: Vec<u64>,
    pub ops: Vec<SOp>,
}

type SApp = App;

fn dec(atomics: u128) -> Decimal {
    Decimal::new(Uint128::new(atomics))
}
fn d256(atomics: u128) -> Decimal256 {
    Decimal256::new(Uint256::from(atomics))
}
fn whole(n: u128) -> Decimal256 {
    Decimal256::from_ratio(Uint256::from(n), Uint256::from(1u128))
}
fn atom() -> Decimal256 {
    Decimal256::new(Uint256::from(1u128))
}

#[derive(Clone, Debug, Default)]
struct Pair {
    lo: u128,
    hi: Decimal256,
    /// rewards: all-time upper accrual, and lower accrual / payments / withdrawals since the
    /// delegation last became positive
    e_hi: Decimal256,
    e_lo: Decimal256,
    paid_total: u128,
    paid_epoch: u128,
    w_epoch: u64,
    w_total: u64,
}

#[derive(Clone, Debug)]
struct Unb {
    d: usize,
    v: usize,
    amount: u128,
    payout_at: u64, // nanos
}

struct World {
    app: SApp,
    delegators: Vec<Addr>,
    third: Vec<Addr>,
    validators: Vec<String>,
    commissions: Vec<u128>,
    apr: u128,
    unbonding: u64,
    // reference
    bal: BTreeMap<String, u128>,
    pool: u128,
    pairs: BTreeMap<(usize, usize), Pair>,
    queue: VecDeque<Unb>,
    waddr: BTreeMap<usize, String>,
    slashed: BTreeSet<usize>,
    slashed_positive: BTreeSet<usize>,
    minted: u128,
    initial_supply: u128,
}

struct Violation {
    owners: Vec<&'static str>,
    sig: String,
    msg: String,
}

fn v(owner: &'static str, sig: &str, msg: String) -> Violation {
    // a panic of any operation is C14's ("no sequence ... makes the simulator panic"); a panicking
    // slash is C16's as well
    let owners = if owner == "C16" && sig.starts_with("panic:") { vec!["C14", "C16"] } else { vec![owner] };
    Violation { owners, sig: sig.to_string(), msg }
}

const POOL_KEY: &[u8] = b"\x00\x04bank\x00\x08balancesstaking_module";

impl World {
    fn new(case: &Case) -> World {
        // (a crowd scenario brings more delegators than the usual three)
        let nd = case.funds.len().clamp(N_DELEGATORS, 24);
        let delegators: Vec<Addr> = (0..nd).map(|i| format!("delegator{}", i).into_addr()).collect();
        let third: Vec<Addr> = (0..N_THIRD).map(|i| format!("third{}", i).into_addr()).collect();
        let nval = case.commissions.len().clamp(1, 3);
        let validators: Vec<String> = (0..nval).map(|i| format!("validator{}", i)).collect();
        let commissions: Vec<u128> = (0..nval).map(|i| (case.commissions.get(i).copied().unwrap_or(0) as u128).min(1_000_000_000_000_000_000)).collect();
        let funds: Vec<u128> = (0..nd).map(|i| case.funds.get(i).copied().unwrap_or(0) as u128).collect();
        let apr = case.apr.min(10_000_000_000_000_000_000);
        let (d2, v2, c2, f2) = (delegators.clone(), validators.clone(), commissions.clone(), funds.clone());
        let unbonding = case.unbonding_time;
        let app: SApp = AppBuilder::new().build(move |router, api, storage| {
            router.staking.setup(storage, StakingInfo { bonded_denom: DENOM.to_string(), unbonding_time: unbonding, apr: dec(apr) }).unwrap();
            for (i, name) in v2.iter().enumerate() {
                let val = Validator::new(name.clone(), dec(c2[i]), Decimal::one(), Decimal::one());
                router.staking.add_validator(api, storage, &mock_env().block, val).unwrap();
            }
            for (i, d) in d2.iter().enumerate() {
                let mut coins = vec![coin(50, FOREIGN)];
                if f2[i] > 0 {
                    coins.push(coin(f2[i], DENOM));
                }
                router.bank.init_balance(storage, d, coins).unwrap();
            }
        });
        let mut bal = BTreeMap::new();
        for (i, d) in delegators.iter().enumerate() {
            bal.insert(d.to_string(), funds[i]);
        }
        let initial_supply = funds.iter().sum();
        World { app, delegators, third, validators, commissions, apr, unbonding, bal, pool: 0, pairs: BTreeMap::new(), queue: VecDeque::new(), waddr: BTreeMap::new(), slashed: BTreeSet::new(), slashed_positive: BTreeSet::new(), minted: 0, initial_supply }
    }

    fn now(&self) -> u64 {
        self.app.block_info().time.nanos()
    }

    fn holders(&self) -> Vec<String> {
        self.delegators.iter().chain(self.third.iter()).map(|a| a.to_string()).collect()
    }

    // ---- observations of the real App
    fn real_balance(&self, a: &str) -> u128 {
        self.app.wrap().query_balance(a, DENOM).map(|c| c.amount.u128()).unwrap_or(u128::MAX)
    }
    fn real_pool(&self) -> u128 {
        use cosmwasm_std::Storage;
        match self.app.storage().get(POOL_KEY) {
            None => 0,
            Some(raw) => {
                let coins: Vec<Coin> = serde_json::from_slice(&raw).unwrap_or_default();
                coins.iter().filter(|c| c.denom == DENOM).map(|c| c.amount.u128()).sum()
            }
        }
    }
    fn real_supply(&self) -> u128 {
        self.app.wrap().query_supply(DENOM).map(|c| c.amount.u128()).unwrap_or(u128::MAX)
    }
    /// (delegation shown, rewards shown in the Delegation query)
    fn real_delegation(&self, d: usize, vi: usize) -> Result<(u128, u128), String> {
        match self.app.wrap().query_delegation(self.delegators[d].clone(), self.validators[vi].clone()) {
            Ok(None) => Ok((0, 0)),
            Ok(Some(fd)) => Ok((fd.amount.amount.u128(), fd.accumulated_rewards.iter().filter(|c| c.denom == DENOM).map(|c| c.amount.u128()).sum())),
            Err(e) => Err(e.to_string()),
        }
    }
    /// pending reward according to StakeKeeper::get_rewards (None = no entry)
    fn real_rewards(&self, d: usize, vi: usize) -> Option<u128> {
        let block = self.app.block_info();
        let (del, val) = (self.delegators[d].clone(), self.validators[vi].clone());
        self.app.read_module(|router, _api, storage| router.staking.get_rewards(storage, &block, &del, &val)).ok().flatten().map(|c| c.amount.u128())
    }

    fn snapshot_delegations(&self) -> Result<BTreeMap<(usize, usize), (u128, u128)>, String> {
        let mut m = BTreeMap::new();
        for d in 0..self.delegators.len() {
            for vi in 0..self.validators.len() {
                m.insert((d, vi), self.real_delegation(d, vi)?);
            }
        }
        Ok(m)
    }

    fn snapshot_rewards(&self) -> BTreeMap<(usize, usize), Option<u128>> {
        let mut m = BTreeMap::new();
        for d in 0..self.delegators.len() {
            for vi in 0..self.validators.len() {
                m.insert((d, vi), self.real_rewards(d, vi));
            }
        }
        m
    }

    fn snapshot_balances(&self) -> BTreeMap<String, u128> {
        self.holders().into_iter().map(|h| (h.clone(), self.real_balance(&h))).collect()
    }

    fn resolve(&self, amt: SAmt, base: u128) -> u128 {
        match amt {
            SAmt::Exact(n) => n as u128,
            SAmt::One => 1,
            SAmt::Half => base / 2,
            SAmt::All => base,
            SAmt::AllPlus1 => base + 1,
            SAmt::Zero => 0,
        }
    }

    // ---- invariants checked after every operation
    fn check_invariants(&mut self, step: usize, out: &mut Vec<Violation>) {
        // balances
        for h in self.holders() {
            let want = self.bal.get(&h).copied().unwrap_or(0);
            let got = self.real_balance(&h);
            if got != want {
                out.push(v("C14", "balance", format!("step {}: balance of {} is {} but delegations, unbondings and payouts so far give {}", step, h, got, want)));
                return;
            }
        }
        let pool = self.real_pool();
        if pool != self.pool {
            out.push(v("C14", "pool", format!("step {}: staking pool holds {} but delegated minus paid-out tokens give {}", step, pool, self.pool)));
            return;
        }
        let supply = self.real_supply();
        if supply != self.initial_supply + self.minted {
            out.push(v("C15", "supply", format!("step {}: supply is {} but initial {} plus reward mints {} expected", step, supply, self.initial_supply, self.minted)));
            return;
        }
        // token accounting: the pool covers pending unbondings and the whole-token part of every delegation
        let pending: u128 = self.queue.iter().map(|u| u.amount).sum();
        let lo_sum: u128 = self.pairs.values().map(|p| p.lo).sum();
        if pool < pending + lo_sum {
            out.push(v("C14", "pool-underfunded", format!("step {}: pool {} < pending unbondings {} + delegations {}", step, pool, pending, lo_sum)));
            return;
        }
        // delegations and rewards
        let eps = Decimal256::from_ratio(1u128, 1_000_000u128);
        for d in 0..self.delegators.len() {
            let mut sum_pairs: BTreeMap<String, u128> = BTreeMap::new();
            for vi in 0..self.validators.len() {
                let (shown, shown_r) = match self.real_delegation(d, vi) {
                    Ok(x) => x,
                    Err(e) => {
                        out.push(v("C14", "delegation-query-failed", format!("step {}: Delegation({}, {}) failed: {}", step, d, vi, e)));
                        return;
                    }
                };
                let pending_r = self.real_rewards(d, vi);
                let slashed_v = self.slashed.contains(&vi);
                let p = self.pairs.entry((d, vi)).or_default();
                let hi_floor: u128 = p.hi.to_uint_floor().try_into().map(|x: Uint128| x.u128()).unwrap_or(u128::MAX);
                if shown < p.lo || shown > hi_floor {
                    let owner = if slashed_v { "C16" } else { "C14" };
                    out.push(v(owner, "delegation-amount", format!("step {}: Delegation(delegator{}, validator{}) shows {} but the operations so far give between {} and {}", step, d, vi, shown, p.lo, hi_floor)));
                    return;
                }
                if shown > 0 {
                    sum_pairs.insert(self.validators[vi].clone(), shown);
                }
                if shown > 0 {
                    if pending_r != Some(shown_r) {
                        out.push(v("C15", "rewards-two-views", format!("step {}: Delegation query shows reward {} but get_rewards says {:?} for (delegator{}, validator{})", step, shown_r, pending_r, d, vi)));
                        return;
                    }
                    let total = whole(p.paid_total + shown_r);
                    if total > p.e_hi + eps {
                        out.push(v("C15", "rewards-overpaid", format!("step {}: (delegator{}, validator{}) received {} and is shown {} but stake x rate x (1-commission) x time / year is at most {}", step, d, vi, p.paid_total, shown_r, p.e_hi)));
                        return;
                    }
                    let have = whole(p.paid_epoch + shown_r) + whole(p.w_epoch as u128 + 1) + eps;
                    if have <= p.e_lo {
                        out.push(v("C15", "rewards-underpaid", format!("step {}: (delegator{}, validator{}) received {} and is shown {} after {} withdrawals but the linear law gives at least {}", step, d, vi, p.paid_epoch, shown_r, p.w_epoch, p.e_lo)));
                        return;
                    }
                } else {
                    // the delegation is not positive: a new period starts when it becomes positive again
                    p.e_lo = Decimal256::zero();
                    p.paid_epoch = 0;
                    p.w_epoch = 0;
                }
            }
            // AllDelegations agrees with the per-pair queries (zero entries count as absent)
            match self.app.wrap().query_all_delegations(self.delegators[d].clone()) {
                Ok(all) => {
                    let got: BTreeMap<String, u128> = all.iter().filter(|x| !x.amount.amount.is_zero()).map(|x| (x.validator.clone(), x.amount.amount.u128())).collect();
                    if got != sum_pairs {
                        let mut viol = v("C14", "all-delegations", format!("step {}: AllDelegations(delegator{}) = {:?} but the per-validator queries give {:?}", step, d, got, sum_pairs));
                        if !self.slashed_positive.is_empty() {
                            // what a delegation is after a slash is C16's as well
                            viol.owners.push("C16");
                        }
                        out.push(viol);
                        return;
                    }
                }
                Err(e) => {
                    out.push(v("C14", "delegation-query-failed", format!("step {}: AllDelegations failed: {}", step, e)));
                    return;
                }
            }
        }
    }

    /// accrue the linear law over dt seconds for every pair
    fn accrue(&mut self, dt_nanos: u64) {
        if dt_nanos == 0 {
            return;
        }
        let apr = d256(self.apr);
        let year = whole(YEAR as u128);
        // elapsed time in seconds with nanosecond resolution (exact in 18-decimal fixed point)
        let t = Decimal256::from_ratio(Uint256::from(dt_nanos as u128), Uint256::from(1_000_000_000u128));
        for ((_, vi), p) in self.pairs.iter_mut() {
            let keep = Decimal256::one() - d256(self.commissions[*vi]);
            let lo = whole(p.lo) * apr * keep * t / year;
            p.e_lo += lo;
            let hi = p.hi * apr * keep * t / year + atom() + atom() + atom() + atom();
            if !p.hi.is_zero() {
                p.e_hi += hi;
            }
        }
    }
}

fn mul_floor(amount: u128, keep_atomics: u128) -> u128 {
    let x = Uint256::from(amount) * Uint256::from(keep_atomics) / Uint256::from(1_000_000_000_000_000_000u128);
    Uint128::try_from(x).map(|u| u.u128()).unwrap_or(u128::MAX)
}

pub struct StakingCheck {
    id: String,
    tier: Tier,
}

struct RunStats {
    /// Ok/Err of every generated operation (checkpoints excluded), in order
    outcomes: Vec<bool>,
    partial_undelegate: bool,
    slash_while_pending: bool,
    matured_then_more: bool,
    withdrawals: u64,
    slashes_multi: bool,
    reward_intervals: u64,
}

impl StakingCheck {
    /// Executes a history; returns violations (with owner) and per-pair (paid + shown) at the end.
    fn run(&self, case: &Case, judge: bool, cx: &mut Cx) -> (Vec<Violation>, BTreeMap<(usize, usize), (u128, u64)>, RunStats, Vec<SOp>) {
        let mut w = World::new(case);
        // the same operations with every relative amount replaced by the concrete one used
        let mut concrete: Vec<SOp> = vec![];
        let mut out: Vec<Violation> = vec![];
        let nval = w.validators.len();
        let mut stats = RunStats { outcomes: vec![], partial_undelegate: false, slash_while_pending: false, matured_then_more: false, withdrawals: 0, slashes_multi: false, reward_intervals: 0 };
        let mut matured_any = false;
        if judge {
            w.check_invariants(0, &mut out);
        }
        for (i, op) in case.ops.iter().enumerate() {
            if !out.is_empty() {
                break;
            }
            let step = i + 1;
            let before_scan = scan(w.app.storage());
            concrete.push(op.clone());
            match op {
                SOp::Delegate(d, vi, amt, foreign) => {
                    let d = *d as usize % w.delegators.len();
                    let known = (*vi as usize) < nval;
                    let vname = if known { w.validators[*vi as usize].clone() } else { "nobody".to_string() };
                    let who = w.delegators[d].to_string();
                    let a = w.resolve(*amt, w.bal[&who]);
                    *concrete.last_mut().unwrap() = SOp::Delegate(d as u8, *vi, SAmt::Exact(a.min(u64::MAX as u128) as u64), *foreign);
                    let denom = if *foreign { FOREIGN } else { DENOM };
                    let have = if *foreign { 50 } else { w.bal[&who] };
                    let listed_invalid = a == 0 || *foreign || !known;
                    let valid = !listed_invalid && a <= have;
                    let msg = StakingMsg::Delegate { validator: vname.clone(), amount: coin(a, denom) };
                    let sender = w.delegators[d].clone();
                    let app = &mut w.app;
                    let r = catch(|| app.execute(sender, msg.into()).map(|_| ()).map_err(|e| e.to_string()));
                    match r {
                        Err(p) => out.push(v("C14", &panic_sig(&p), format!("step {}: {:?} panicked: {}", step, op, p))),
                        Ok(Ok(())) => {
                            if !valid {
                                out.push(v("C14", "invalid-delegate-accepted", format!("step {}: {:?} (amount {} {}, balance {}) was accepted", step, op, a, denom, have)));
                            } else {
                                let vi = *vi as usize;
                                *w.bal.get_mut(&who).unwrap() -= a;
                                w.pool += a;
                                let p = w.pairs.entry((d, vi)).or_default();
                                p.lo += a;
                                p.hi += whole(a);
                                if matured_any {
                                    stats.matured_then_more = true;
                                }
                                cx.label("delegate:ok");
                            }
                        }
                        Ok(Err(e)) => {
                            if valid {
                                out.push(v("C14", "valid-delegate-rejected", format!("step {}: {:?} (amount {}, balance {}) was rejected: {}", step, op, a, have, e)));
                            } else {
                                cx.label("delegate:rejected");
                                if let Some(dd) = diff_scans(&before_scan, &scan(w.app.storage())) {
                                    out.push(v("C14", "rejected-op-changed-state", format!("step {}: rejected {:?} changed storage: {}", step, op, dd)));
                                }
                            }
                        }
                    }
                }
                SOp::Undelegate(d, vi, amt, foreign) | SOp::Redelegate(d, vi, _, amt, foreign) => {
                    let d = *d as usize % w.delegators.len();
                    let known = (*vi as usize) < nval;
                    let vname = if known { w.validators[*vi as usize].clone() } else { "nobody".to_string() };
                    let shown = if known { w.real_delegation(d, *vi as usize).map(|x| x.0).unwrap_or(0) } else { 0 };
                    let a = w.resolve(*amt, shown);
                    let denom = if *foreign { FOREIGN } else { DENOM };
                    let (is_re, dst) = match op {
                        SOp::Redelegate(_, _, dst, _, _) => (true, *dst as usize),
                        _ => (false, 0),
                    };
                    let ea = SAmt::Exact(a.min(u64::MAX as u128) as u64);
                    *concrete.last_mut().unwrap() = if is_re { SOp::Redelegate(d as u8, *vi, dst as u8, ea, *foreign) } else { SOp::Undelegate(d as u8, *vi, ea, *foreign) };
                    let dst_known = dst < nval;
                    let dname = if dst_known { w.validators[dst].clone() } else { "nobody".to_string() };
                    // listed as failing: more than delegated, zero (undelegate), foreign denom, unknown validator
                    let listed_invalid = a > shown || (!is_re && a == 0) || *foreign || !known || (is_re && !dst_known);
                    let msg: cosmwasm_std::CosmosMsg = if is_re { StakingMsg::Redelegate { src_validator: vname.clone(), dst_validator: dname, amount: coin(a, denom) }.into() } else { StakingMsg::Undelegate { validator: vname.clone(), amount: coin(a, denom) }.into() };
                    let sender = w.delegators[d].clone();
                    let t0 = w.now();
                    let app = &mut w.app;
                    let r = catch(|| app.execute(sender, msg).map(|_| ()).map_err(|e| e.to_string()));
                    match r {
                        Err(p) => out.push(v("C14", &panic_sig(&p), format!("step {}: {:?} panicked: {}", step, op, p))),
                        Ok(Ok(())) => {
                            if listed_invalid {
                                out.push(v("C14", "invalid-unbond-accepted", format!("step {}: {:?} (amount {} {}, delegation shown {}) was accepted", step, op, a, denom, shown)));
                            } else {
                                let vi = *vi as usize;
                                {
                                    let p = w.pairs.entry((d, vi)).or_default();
                                    p.lo = p.lo.saturating_sub(a);
                                    p.hi = if p.hi >= whole(a) { p.hi - whole(a) } else { Decimal256::zero() };
                                }
                                if is_re {
                                    let p = w.pairs.entry((d, dst)).or_default();
                                    p.lo += a;
                                    p.hi += whole(a);
                                    if dst == vi && a == shown {
                                        // the whole delegation was removed and re-created: a new period starts
                                        p.e_lo = Decimal256::zero();
                                        p.paid_epoch = 0;
                                        p.w_epoch = 0;
                                    }
                                    cx.label("redelegate:ok");
                                } else {
                                    w.queue.push_back(Unb { d, v: vi, amount: a, payout_at: t0 + w.unbonding * 1_000_000_000 });
                                    if a < shown {
                                        stats.partial_undelegate = true;
                                    }
                                    cx.label("undelegate:ok");
                                }
                                if matured_any {
                                    stats.matured_then_more = true;
                                }
                            }
                        }
                        Ok(Err(e)) => {
                            let must_succeed = !listed_invalid && !w.slashed.contains(&(*vi as usize)) && !(is_re && w.slashed.contains(&dst)) && !(is_re && a == 0);
                            if must_succeed {
                                out.push(v("C14", "valid-unbond-rejected", format!("step {}: {:?} (amount {}, delegation shown {}, validator never slashed) was rejected: {}", step, op, a, shown, e)));
                            } else {
                                if !listed_invalid {
                                    cx.label("tolerated-rejection");
                                }
                                cx.label("unbond:rejected");
                                if let Some(dd) = diff_scans(&before_scan, &scan(w.app.storage())) {
                                    out.push(v("C14", "rejected-op-changed-state", format!("step {}: rejected {:?} changed storage: {}", step, op, dd)));
                                }
                            }
                        }
                    }
                }
                SOp::Withdraw(d, vi) => {
                    let d = *d as usize % w.delegators.len();
                    let known = (*vi as usize) < nval;
                    let vname = if known { w.validators[*vi as usize].clone() } else { "nobody".to_string() };
                    let shown_before = if known { w.real_rewards(d, *vi as usize) } else { None };
                    let deleg_before = if known { w.real_delegation(d, *vi as usize).map(|x| x.0).unwrap_or(0) } else { 0 };
                    let others_before = w.snapshot_rewards();
                    let bal_before = w.snapshot_balances();
                    let supply_before = w.real_supply();
                    let sender = w.delegators[d].clone();
                    let msg = DistributionMsg::WithdrawDelegatorReward { validator: vname };
                    let app = &mut w.app;
                    let r = catch(|| app.execute(sender, msg.into()).map(|_| ()).map_err(|e| e.to_string()));
                    match r {
                        Err(p) => out.push(v("C14", &panic_sig(&p), format!("step {}: {:?} panicked: {}", step, op, p))),
                        Ok(Ok(())) => {
                            let vi = *vi as usize;
                            let paid = shown_before.unwrap_or(0);
                            let target = w.waddr.get(&d).cloned().unwrap_or(w.delegators[d].to_string());
                            let bal_after = w.snapshot_balances();
                            for (h, b) in &bal_before {
                                let delta = bal_after[h] as i128 - *b as i128;
                                let want = if *h == target { paid as i128 } else { 0 };
                                if delta != want {
                                    out.push(v("C15", "withdrawal-payment", format!("step {}: {:?}: pending reward shown was {:?}, withdraw address {}; balance of {} changed by {} (expected {})", step, op, shown_before, target, h, delta, want)));
                                    break;
                                }
                            }
                            if out.is_empty() && w.real_supply() != supply_before + paid {
                                out.push(v("C15", "withdrawal-mint", format!("step {}: {:?}: supply rose by {} but the reward shown was {}", step, op, w.real_supply() - supply_before, paid)));
                            }
                            let after = w.real_rewards(d, vi);
                            if out.is_empty() && after.unwrap_or(0) != 0 {
                                out.push(v("C15", "pending-not-reset", format!("step {}: {:?}: pending reward after the withdrawal is {:?}", step, op, after)));
                            }
                            let others_after = w.snapshot_rewards();
                            for (k, b) in &others_before {
                                if *k != (d, vi) && others_after[k] != *b && out.is_empty() {
                                    out.push(v("C15", "withdrawal-touched-others", format!("step {}: {:?} changed the pending reward of (delegator{}, validator{}) from {:?} to {:?}", step, op, k.0, k.1, b, others_after[k])));
                                }
                            }
                            *w.bal.entry(target).or_insert(0) += paid;
                            w.minted += paid;
                            let p = w.pairs.entry((d, vi)).or_default();
                            p.paid_total += paid;
                            p.paid_epoch += paid;
                            p.w_epoch += 1;
                            p.w_total += 1;
                            stats.withdrawals += 1;
                            cx.label("withdraw:ok");
                        }
                        Ok(Err(e)) => {
                            if shown_before.unwrap_or(0) > 0 && deleg_before > 0 {
                                out.push(v("C15", "withdrawal-refused", format!("step {}: {:?}: pending reward {:?} is shown for a positive delegation but the withdrawal failed: {}", step, op, shown_before, e)));
                            }
                            cx.label("withdraw:rejected");
                            if let Some(dd) = diff_scans(&before_scan, &scan(w.app.storage())) {
                                out.push(v("C14", "rejected-op-changed-state", format!("step {}: rejected {:?} changed storage: {}", step, op, dd)));
                            }
                        }
                    }
                }
                SOp::SetWithdraw(d, t) => {
                    let d = *d as usize % w.delegators.len();
                    let all: Vec<Addr> = w.delegators.iter().chain(w.third.iter()).cloned().collect();
                    let target = all[*t as usize % all.len()].clone();
                    let sender = w.delegators[d].clone();
                    let msg = DistributionMsg::SetWithdrawAddress { address: target.to_string() };
                    let app = &mut w.app;
                    let r = catch(|| app.execute(sender, msg.into()).map(|_| ()).map_err(|e| e.to_string()));
                    match r {
                        Err(p) => out.push(v("C14", &panic_sig(&p), format!("step {}: {:?} panicked: {}", step, op, p))),
                        Ok(Ok(())) => {
                            w.waddr.insert(d, target.to_string());
                        }
                        Ok(Err(e)) => out.push(v("C15", "set-withdraw-rejected", format!("step {}: {:?} rejected: {}", step, op, e))),
                    }
                }
                SOp::Slash(vi, p) => {
                    let known = (*vi as usize) < nval;
                    let vname = if known { w.validators[*vi as usize].clone() } else { "nobody".to_string() };
                    let pa = p.atomics();
                    let valid = known && pa <= 1_000_000_000_000_000_000;
                    let del_before = match w.snapshot_delegations() {
                        Ok(m) => m,
                        Err(e) => {
                            out.push(v("C14", "delegation-query-failed", format!("step {}: {}", step, e)));
                            break;
                        }
                    };
                    let rew_before = w.snapshot_rewards();
                    let bal_before = w.snapshot_balances();
                    let pool_before = w.real_pool();
                    let msg = SudoMsg::Staking(StakingSudo::Slash { validator: vname, percentage: dec(pa) });
                    let app = &mut w.app;
                    let r = catch(|| app.sudo(msg).map(|_| ()).map_err(|e| e.to_string()));
                    match r {
                        Err(pn) => out.push(v("C16", &panic_sig(&pn), format!("step {}: {:?} panicked: {}", step, op, pn))),
                        Ok(Ok(())) => {
                            if !valid {
                                out.push(v("C16", "invalid-slash-accepted", format!("step {}: {:?} was accepted", step, op)));
                            } else {
                                let vi = *vi as usize;
                                let keep = 1_000_000_000_000_000_000u128 - pa;
                                let ndel = (0..w.delegators.len()).filter(|d| del_before[&(*d, vi)].0 > 0).count();
                                let pend_here = w.queue.iter().any(|u| u.v == vi);
                                let pend_other = w.queue.iter().any(|u| u.v != vi);
                                let other_del = (0..w.delegators.len()).any(|d| (0..nval).any(|x| x != vi && del_before[&(d, x)].0 > 0));
                                if ndel >= 2 && pend_here && pend_other && other_del {
                                    stats.slashes_multi = true;
                                }
                                if pend_here {
                                    stats.slash_while_pending = true;
                                }
                                for d in 0..w.delegators.len() {
                                    let pr = w.pairs.entry((d, vi)).or_default();
                                    pr.lo = mul_floor(pr.lo, keep);
                                    let exact = pr.hi * d256(keep);
                                    pr.hi = if pr.hi.is_zero() || keep == 1_000_000_000_000_000_000 { exact } else { exact + atom() };
                                }
                                for u in w.queue.iter_mut().filter(|u| u.v == vi) {
                                    u.amount = mul_floor(u.amount, keep);
                                }
                                w.slashed.insert(vi);
                                if pa > 0 {
                                    w.slashed_positive.insert(vi);
                                }
                                let del_after = match w.snapshot_delegations() {
                                    Ok(m) => m,
                                    Err(e) => {
                                        out.push(v("C14", "delegation-query-failed", format!("step {}: {}", step, e)));
                                        break;
                                    }
                                };
                                for (k, b) in &del_before {
                                    let a = del_after[k];
                                    if k.1 == vi {
                                        let pr = &w.pairs[k];
                                        let hi_floor: u128 = pr.hi.to_uint_floor().try_into().map(|x: Uint128| x.u128()).unwrap_or(u128::MAX);
                                        if a.0 > b.0 {
                                            out.push(v("C16", "slash-increased", format!("step {}: {:?} raised the delegation of delegator{} from {} to {}", step, op, k.0, b.0, a.0)));
                                        } else if a.0 < pr.lo || a.0 > hi_floor {
                                            out.push(v("C16", "slash-scaling", format!("step {}: {:?}: delegation of delegator{} went from {} to {}, (1-p) scaling gives between {} and {}", step, op, k.0, b.0, a.0, pr.lo, hi_floor)));
                                        } else if pa == 1_000_000_000_000_000_000 && a.0 != 0 {
                                            out.push(v("C16", "slash-total-left-delegation", format!("step {}: p = 1 left delegation {}", step, a.0)));
                                        }
                                    } else if a.0 != b.0 {
                                        out.push(v("C16", "slash-touched-other-validator", format!("step {}: {:?} changed the delegation (delegator{}, validator{}) from {} to {}", step, op, k.0, k.1, b.0, a.0)));
                                    }
                                    if !out.is_empty() {
                                        break;
                                    }
                                }
                                if out.is_empty() {
                                    let rew_after = w.snapshot_rewards();
                                    for (k, b) in &rew_before {
                                        if let (Some(x), Some(y)) = (b, rew_after[k]) {
                                            if *x != y {
                                                out.push(v("C16", "slash-touched-rewards", format!("step {}: {:?} changed the accrued reward of (delegator{}, validator{}) from {} to {}", step, op, k.0, k.1, x, y)));
                                                break;
                                            }
                                        }
                                        // an entry (and the reward accrued on it) may go with a delegation that is removed
                                        // entirely: p = 1, or the validator's whole-token total reached zero (section 6);
                                        // the total is positive for certain while somebody is still shown a whole token
                                        if let (Some(x), None) = (b, rew_after[k]) {
                                            let whole_left: u128 = (0..w.delegators.len()).map(|d| w.pairs.get(&(d, vi)).map_or(0, |p| p.lo)).sum();
                                            if *x > 0 && pa < 1_000_000_000_000_000_000 && (k.1 != vi || whole_left > 0) {
                                                out.push(v("C16", "slash-dropped-rewards", format!("step {}: {:?} (validator total still positive) dropped the accrued reward {} of (delegator{}, validator{})", step, op, x, k.0, k.1)));
                                                break;
                                            }
                                        }
                                    }
                                }
                                if out.is_empty() && (w.snapshot_balances() != bal_before || w.real_pool() != pool_before) {
                                    out.push(v("C16", "slash-touched-balances", format!("step {}: {:?} changed bank balances", step, op)));
                                }
                                cx.label("slash:ok");
                            }
                        }
                        Ok(Err(e)) => {
                            if valid {
                                out.push(v("C16", "valid-slash-rejected", format!("step {}: {:?} rejected: {}", step, op, e)));
                            } else {
                                cx.label("slash:rejected");
                                if let Some(dd) = diff_scans(&before_scan, &scan(w.app.storage())) {
                                    out.push(v("C16", "rejected-slash-changed-state", format!("step {}: rejected {:?} changed storage: {}", step, op, dd)));
                                }
                            }
                        }
                    }
                }
                SOp::Checkpoint(vi) => {
                    let vi = *vi as usize;
                    let staked: u128 = (0..w.delegators.len()).map(|d| w.pairs.get(&(d, vi)).map_or(0, |p| p.lo)).sum();
                    if vi < nval && !w.slashed_positive.contains(&vi) && staked > 0 {
                        let msg = SudoMsg::Staking(StakingSudo::Slash { validator: w.validators[vi].clone(), percentage: Decimal::zero() });
                        let app = &mut w.app;
                        if let Err(p) = catch(|| app.sudo(msg).map(|_| ()).map_err(|e| e.to_string())) {
                            out.push(v("C14", &panic_sig(&p), format!("step {}: 0% slash panicked: {}", step, p)));
                        }
                    }
                }
                SOp::Advance(_) | SOp::AdvanceNanos(_) => {
                    let (dt, dt_nanos) = match op {
                        SOp::Advance(s) => (*s, *s * 1_000_000_000),
                        SOp::AdvanceNanos(n) => (*n / 1_000_000_000, *n),
                        _ => unreachable!(),
                    };
                    let bal_before = w.snapshot_balances();
                    let app = &mut w.app;
                    // alternate between the two public ways of moving the block
                    let use_set = (dt_nanos / 7 + step as u64) % 2 == 0;
                    let r = catch(|| {
                        if use_set {
                            let mut b = app.block_info();
                            b.time = b.time.plus_nanos(dt_nanos);
                            b.height += 1;
                            app.set_block(b);
                        } else {
                            app.update_block(|b| {
                                b.time = b.time.plus_nanos(dt_nanos);
                                b.height += 1;
                            })
                        }
                    });
                    if let Err(p) = r {
                        out.push(v("C14", &panic_sig(&p), format!("step {}: block update (+{} s) panicked: {}", step, dt, p)));
                        break;
                    }
                    let now = w.now();
                    // reference: pay matured entries from the front of the queue
                    let mut expected: BTreeMap<String, u128> = BTreeMap::new();
                    while let Some(front) = w.queue.front() {
                        if front.payout_at <= now {
                            let u = w.queue.pop_front().unwrap();
                            *expected.entry(w.delegators[u.d].to_string()).or_insert(0) += u.amount;
                            w.pool -= u.amount.min(w.pool);
                            matured_any = true;
                            cx.label("unbonding:paid");
                        } else {
                            break;
                        }
                    }
                    let bal_after = w.snapshot_balances();
                    for (h, b) in &bal_before {
                        let delta = bal_after[h] as i128 - *b as i128;
                        let want = expected.get(h).copied().unwrap_or(0) as i128;
                        if delta != want {
                            let sig = if delta > want { "payout-early-or-too-much" } else { "payout-late-or-too-little" };
                            let mut viol = v("C14", sig, format!("step {}: block update to +{} s changed the balance of {} by {}; unbondings matured by now (after slashes) pay {}", step, dt, h, delta, want));
                            if !w.slashed_positive.is_empty() {
                                // the amount of a pending unbonding after a slash is C16's as well
                                viol.owners.push("C16");
                            }
                            out.push(viol);
                            break;
                        }
                    }
                    for (h, a) in expected {
                        *w.bal.entry(h).or_insert(0) += a;
                    }
                    w.accrue(dt_nanos);
                    if dt_nanos > 0 {
                        stats.reward_intervals += 1;
                    }
                }
            }
            if !matches!(op, SOp::Checkpoint(_) | SOp::Advance(_) | SOp::AdvanceNanos(_)) {
                // accepted operations change storage, rejected ones do not (checked above)
                stats.outcomes.push(scan(w.app.storage()) != before_scan);
            }
            if out.is_empty() && judge {
                w.check_invariants(step, &mut out);
            }
        }
        // final per-pair totals for the path-independence comparison
        let mut totals = BTreeMap::new();
        for d in 0..w.delegators.len() {
            for vi in 0..nval {
                // pending rewards count only for a delegation that is positive at the end
                let positive = w.real_delegation(d, vi).map(|x| x.0 > 0).unwrap_or(false);
                let shown = if positive { w.real_rewards(d, vi).unwrap_or(0) } else { 0 };
                let p = w.pairs.get(&(d, vi)).cloned().unwrap_or_default();
                totals.insert((d, vi), (p.paid_total + shown, p.w_total));
            }
        }
        let _ = BankSudo::Mint { to_address: String::new(), amount: vec![] };
        (out, totals, stats, concrete)
    }
}

fn gen_amt(g: &mut Gen) -> SAmt {
    match g.weighted(&[6, 3, 3, 3, 1, 1]) {
        0 => SAmt::Exact(match g.weighted(&[4, 3, 2, 1]) {
            0 => 1 + g.below(10) as u64,
            1 => g.pick(&[2u64, 3, 7, 13, 101, 997, 100_000_007]),
            2 => g.range(1, 100_000),
            _ => g.range(1, 100_000_000),
        }),
        1 => SAmt::One,
        2 => SAmt::Half,
        3 => SAmt::All,
        4 => SAmt::AllPlus1,
        _ => SAmt::Zero,
    }
}

fn gen_p(g: &mut Gen, heavy: bool) -> PSpec {
    let w: [u32; 9] = if heavy { [2, 2, 3, 3, 2, 2, 1, 1, 3] } else { [1, 1, 3, 4, 1, 1, 1, 1, 2] };
    match g.weighted(&w) {
        0 => PSpec::Zero,
        1 => PSpec::Tiny,
        2 => PSpec::Third,
        3 => PSpec::Half,
        4 => PSpec::Nearly,
        5 => PSpec::One,
        6 => PSpec::OnePlusTiny,
        7 => PSpec::Two,
        _ => PSpec::Atomics(g.range(0, 1_000_000_000_000_000_000)),
    }
}

impl Check for StakingCheck {
    type Case = Case;

    fn new(id: &str, tier: Tier) -> Self {
        StakingCheck { id: id.to_string(), tier }
    }

    fn spec(id: &str) -> Spec {
        match id {
            "C15" => Spec {
                id: "C15",
                level: "exploration",
                rule: "generated staking histories (1-60 ops over 3 delegators, 1-3 validators with commissions from {0, 1%, 33.3..%, 100%, random}, apr with up to 18 decimals, non-round stakes, time split into block updates of 0 s to 10^7 s, whole seconds and arbitrary nanosecond amounts, interleaved withdrawals, withdraw-address changes, stake changes, slashes); at every step and for every pair with a positive delegation: withdrawn + shown <= upper accrual of stake x rate x (1-commission) x time / year + 1e-6 and > lower accrual - (withdrawals + 1) - 1e-6; each successful withdrawal pays exactly the reward shown immediately before to the current withdraw address, mints nothing else, resets the pending reward, leaves other pairs' pending rewards untouched; the same history re-run with extra reward checkpoints (split block updates, 0% slashes) gives per-pair withdrawn+shown within (withdrawals+1) tokens. Non-trivial: >=3 time intervals with a positive delegation, >=1 successful withdrawal; distinct = distinct serialised history Scenario templates (about four histories in ten start with one): sub-token remainder then newcomer, queued unbondings with a slash to zero, whole-token rewards from a non-terminating rate, full redelegation between two halved validators, a delegator slashed below one token while holding accrued rewards, and a crowd of 17-24 delegators whose unbondings mature in one block update",
                assumptions: vec!["block time advances by whole seconds or by arbitrary nanosecond amounts, never backwards", "stakes <= 10^8 tokens, rate <= 1000 %, total time <= 20 years: the crate multiplies reward x stake in 128-bit 18-decimal fixed point, which overflows (documented panic of Decimal) above about 3.4e20", "a withdrawal while nothing is pending may be refused"],
                floor_quick: 150,
            },
            "C16" => Spec {
                id: "C16",
                level: "exploration",
                rule: "generated staking histories biased to slashes (p from {0, 1e-18, 1/3, 1/2, 0.999.., 1, 1+1e-18, 2, random}, unknown validators, several delegators per validator, pending unbondings from several validators, repeated slashes); around every slash all delegations, balances, pool and pending rewards are snapshotted: delegations to the slashed validator must lie in [floor-chain of (1-p), floor of exact (1-p) scaling] and never increase, p = 1 removes them, everything else is bit-identical, invalid slashes are rejected without effect; later payouts of pending unbondings equal floor(amount x (1-p)) per slash. Non-trivial: a slash with >=2 delegators on the validator, a delegation elsewhere and pending unbondings from both; distinct = distinct serialised history Scenario templates (about four histories in ten start with one): sub-token remainder then newcomer, queued unbondings with a slash to zero, whole-token rewards from a non-terminating rate, full redelegation between two halved validators, a delegator slashed below one token while holding accrued rewards, and a crowd of 17-24 delegators whose unbondings mature in one block update",
                assumptions: vec!["sub-token remainders may be dropped (interval oracle, sound for implementations keeping whole or fractional shares)"],
                floor_quick: 20,
            },
            _ => Spec {
                id: "C14",
                level: "exploration",
                rule: "generated staking histories (1-60 ops: delegate, undelegate, redelegate, withdraw, set-withdraw-address, slash, advance block (whole seconds incl. 0 / unbonding_time-1 / unbonding_time, or arbitrary nanoseconds); amounts relative to balance or delegation: 1, half, all, all+1, zero, primes; foreign denomination; unknown validators; unbonding_time from {0, 1, 60, 10^6}); after every op all balances, the pool, supply, every Delegation/AllDelegations answer are compared with an integer reference; listed invalid ops must fail with root storage byte-identical; each unbonding is paid exactly (folded through floor(x(1-p)) per slash) by the first block update at or after its maturity and not before; panics are violations. Non-trivial: a partial undelegation, a slash while it is pending, a block update past its maturity and a further staking operation; distinct = distinct serialised history Scenario templates (about four histories in ten start with one): sub-token remainder then newcomer, queued unbondings with a slash to zero, whole-token rewards from a non-terminating rate, full redelegation between two halved validators, a delegator slashed below one token while holding accrued rewards, and a crowd of 17-24 delegators whose unbondings mature in one block update",
                assumptions: vec!["block time is non-decreasing (whole-second and arbitrary nanosecond advances)", "after a validator was slashed a valid-looking undelegation may be refused (counted as tolerated, not flagged)", "stakes <= 10^8 tokens, rate <= 1000 %, total time <= 20 years (no overflow of 18-decimal fixed point, the statement's precondition)"],
                floor_quick: 100,
            },
        }
    }

    fn budget(_id: &str, tier: Tier) -> Budget {
        match tier {
            Tier::Quick => Budget { cases: 16_000, max_bytes: 900 },
            Tier::Thorough => Budget { cases: 300_000, max_bytes: 1600 },
        }
    }

    fn generate(&self, g: &mut Gen) -> Case {
        let slash_heavy = self.id == "C16";
        let reward_heavy = self.id == "C15";
        let unbonding_time = g.pick(&[60u64, 0, 1, 1_000_000, 10]);
        let apr: u128 = match g.weighted(&[4, 2, 2, 1, 1]) {
            0 => 100_000_000_000_000_000,                          // 10 %
            1 => g.range(0, 1_000_000_000_000_000_000) as u128,     // < 100 %
            2 => g.range(0, 10_000_000_000_000_000_000) as u128,    // < 1000 %
            3 => 0,
            _ => 10_000_000_000_000_000_000,
        };
        let nval = 1 + g.weighted(&[2, 5, 3]);
        let commissions = (0..nval)
            .map(|_| match g.weighted(&[3, 2, 2, 1, 2]) {
                0 => 100_000_000_000_000_000u64,
                1 => 0,
                2 => 333_333_333_333_333_333,
                3 => 1_000_000_000_000_000_000,
                _ => g.range(0, 1_000_000_000_000_000_000),
            })
            .collect();
        let funds = (0..N_DELEGATORS)
            .map(|_| match g.weighted(&[4, 3, 2, 1]) {
                0 => g.range(10, 1000),
                1 => g.pick(&[1u64, 3, 101, 100_000_007]),
                2 => g.range(1, 100_000_000),
                _ => 0,
            })
            .collect();
        let max_ops = if self.tier.is_thorough() { 90 } else { 60 };
        let n = 1 + g.below(max_ops);
        let mut ops = vec![];
        let mut unbonding_time = unbonding_time;
        // scenario templates: shapes that random operations reach only rarely; random operations follow
        let (mut apr, mut commissions, mut funds): (u128, Vec<u64>, Vec<u64>) = (apr, commissions, funds);
        match g.weighted(&[12, 2, 2, 2, 2, 2, 1]) {
            3 => {
                // rewards that are whole tokens although the per-token rate (total reward / total stake)
                // does not terminate in 18 decimals: two delegators with 300k and 600k on one validator,
                // 10 % a year, a third (or a ninth) of a year
                let v = g.below(nval) as u8;
                let k = g.range(1, 50);
                apr = 100_000_000_000_000_000;
                commissions[v as usize] = g.pick(&[0u64, 100_000_000_000_000_000]);
                funds[0] = 300 * k + g.range(0, 5);
                funds[1] = 600 * k + g.range(0, 5);
                ops.push(SOp::Delegate(0, v, SAmt::Exact(300 * k), false));
                ops.push(SOp::Delegate(1, v, SAmt::Exact(600 * k), false));
                ops.push(SOp::Advance(if g.bool() { YEAR / 3 } else { YEAR / 9 * g.range(1, 9) }));
                ops.push(SOp::Withdraw(0, v));
                ops.push(SOp::Withdraw(1, v));
            }
            6 => {
                // a crowd: seventeen to twenty-four delegators whose unbondings all mature in one block update
                let v = g.below(nval) as u8;
                let n = 17 + g.below(8);
                funds = (0..n).map(|_| g.range(2, 40)).collect();
                for d in 0..n as u8 {
                    ops.push(SOp::Delegate(d, v, SAmt::Half, false));
                }
                if g.bool() {
                    ops.push(SOp::Advance(g.range(1, 1000)));
                }
                for d in 0..n as u8 {
                    ops.push(SOp::Undelegate(d, v, if g.bool() { SAmt::All } else { SAmt::One }, false));
                }
                ops.push(SOp::Advance(unbonding_time));
            }
            5 => {
                // a delegator with accrued rewards is slashed below one token while the validator keeps whole
                // tokens of somebody else
                let v = g.below(nval) as u8;
                let k = g.range(2, 1000);
                funds[0] = funds[0].max(10);
                funds[1] = k + g.range(0, 3);
                ops.push(SOp::Delegate(0, v, SAmt::Half, false));
                ops.push(SOp::Delegate(1, v, SAmt::Exact(k), false));
                ops.push(SOp::Advance(g.range(YEAR / 12, YEAR)));
                ops.push(SOp::Undelegate(1, v, SAmt::Exact(k - 1), false));
                ops.push(SOp::Slash(v, PSpec::Half));
                ops.push(SOp::Advance(g.range(1, 1000)));
            }
            4 => {
                // fractional delegations on both sides of a redelegation of the whole visible amount:
                // two odd delegations, both validators halved, everything visible moved over (twice)
                let v = g.below(nval) as u8;
                let w = (v + 1) % nval as u8;
                let d = g.below(N_DELEGATORS) as u8;
                let (a, b) = (2 * g.range(1, 50) + 1, 2 * g.range(1, 50) + 1);
                funds[d as usize] = 2 * (a + b) + g.range(0, 5);
                ops.push(SOp::Delegate(d, v, SAmt::Exact(a), false));
                ops.push(SOp::Delegate(d, w, SAmt::Exact(b), false));
                ops.push(SOp::Slash(v, PSpec::Half));
                if g.bool() {
                    ops.push(SOp::Slash(w, PSpec::Half));
                }
                ops.push(SOp::Redelegate(d, v, w, SAmt::All, false));
                if g.bool() {
                    ops.push(SOp::Delegate(d, v, SAmt::Exact(a), false));
                    ops.push(SOp::Slash(v, PSpec::Half));
                    ops.push(SOp::Redelegate(d, v, w, SAmt::All, false));
                }
            }
            1 => {
                // a slash leaves the only delegator a sub-token remainder on a validator whose whole-token
                // total is zero; time passes while the remainder is still there; a newcomer delegates
                unbonding_time = 1_000_000;
                let v = g.below(nval) as u8;
                let odd = 2 * g.range(1, 500) + 1;
                ops.push(SOp::Delegate(0, v, SAmt::Exact(odd), false));
                if g.bool() {
                    ops.push(SOp::Advance(g.range(1, 100_000)));
                }
                ops.push(SOp::Slash(v, PSpec::Half));
                ops.push(SOp::Undelegate(0, v, SAmt::All, false));
                ops.push(SOp::Advance(g.range(1000, 900_000)));
                ops.push(SOp::Delegate(1, v, gen_amt(g), false));
                ops.push(SOp::Advance(g.range(1, 1_000_000)));
                ops.push(SOp::Withdraw(1, v));
            }
            2 => {
                // several unbondings from several validators queued behind each other, one of them slashed to zero
                let v = g.below(nval) as u8;
                let w = (v + 1) % nval as u8;
                ops.push(SOp::Delegate(0, v, SAmt::Half, false));
                ops.push(SOp::Delegate(1, w, SAmt::Half, false));
                ops.push(SOp::Delegate(2, v, SAmt::Half, false));
                ops.push(SOp::Undelegate(0, v, SAmt::One, false));
                ops.push(SOp::Advance(g.range(0, 5)));
                ops.push(SOp::Undelegate(1, w, gen_amt(g), false));
                ops.push(SOp::Undelegate(0, v, SAmt::One, false));
                ops.push(SOp::Slash(v, if g.bool() { PSpec::One } else { PSpec::Half }));
                ops.push(SOp::Undelegate(2, v, SAmt::Half, false));
                ops.push(SOp::Advance(unbonding_time));
            }
            _ => {}
        }
        if slash_heavy && g.chance(2, 3) {
            // warm-up: several delegators per validator and pending unbondings from several validators
            for d in 0..N_DELEGATORS as u8 {
                ops.push(SOp::Delegate(d, d % nval as u8, SAmt::Half, false));
                ops.push(SOp::Delegate(d, (d + 1) % nval as u8, SAmt::Half, false));
            }
            for d in 0..N_DELEGATORS as u8 {
                ops.push(SOp::Undelegate(d, d % nval as u8, gen_amt(g), false));
                if g.bool() {
                    ops.push(SOp::Undelegate(d, (d + 1) % nval as u8, SAmt::One, false));
                }
            }
        }
        for _ in 0..n {
            if g.exhausted() {
                break;
            }
            let d = g.below(N_DELEGATORS) as u8;
            let vi = if g.chance(1, 20) { 9 } else { g.below(nval) as u8 };
            let foreign = g.chance(1, 25);
            let w: [u32; 7] = if slash_heavy { [6, 5, 2, 2, 1, 6, 5] } else if reward_heavy { [6, 3, 2, 6, 2, 1, 9] } else { [7, 6, 3, 2, 1, 3, 7] };
            let op = match g.weighted(&w) {
                0 => SOp::Delegate(d, vi, gen_amt(g), foreign),
                1 => SOp::Undelegate(d, vi, gen_amt(g), foreign),
                2 => SOp::Redelegate(d, vi, if g.chance(1, 15) { 9 } else { g.below(nval) as u8 }, gen_amt(g), foreign),
                3 => SOp::Withdraw(d, vi),
                4 => SOp::SetWithdraw(d, g.below(N_DELEGATORS + N_THIRD) as u8),
                5 => SOp::Slash(vi, gen_p(g, slash_heavy)),
                _ if g.chance(1, 3) => SOp::AdvanceNanos(match g.weighted(&[3, 3, 2]) {
                    0 => g.range(1, 3_000_000_000),
                    1 => g.range(1, 100_000) * 1_000_000_000 + g.range(0, 999_999_999),
                    _ => g.range(1, 999_999_999),
                }),
                _ => SOp::Advance(match g.weighted(&[3, 2, 2, 2, 2, 1, 1]) {
                    0 => g.range(1, 100),
                    1 => unbonding_time,
                    2 => unbonding_time.saturating_sub(1),
                    3 => g.range(1, 100_000),
                    4 => g.range(1, 10_000_000),
                    5 => 0,
                    _ => YEAR / 2,
                }),
            };
            ops.push(op);
        }
        Case { unbonding_time, apr, commissions, funds, ops }
    }

    fn execute(&self, case: &Case, cx: &mut Cx) -> Result<(), Failure> {
        let id = self.id.as_str();
        let (viol, totals, stats, concrete) = self.run(case, true, cx);
        if let Some(f) = viol.first() {
            if f.owners.contains(&id) {
                return Err(Failure::new(format!("{}:{}", id, f.sig), f.msg.clone()));
            }
            cx.label(&format!("gated:owned-by-{}", f.owners.join("+")));
            return Ok(());
        }
        if id == "C15" && stats.reward_intervals >= 1 {
            // metamorphic: extra reward checkpoints must not change what delegators get
            let mut twin = case.clone();
            twin.ops = vec![];
            let nval = case.commissions.len().clamp(1, 3) as u8;
            // concrete amounts: a relative amount ("half of the balance") would resolve differently
            // once a withdrawal differs by a rounded-off token, and confound the comparison
            for op in &concrete {
                match op {
                    SOp::Advance(dt) if *dt >= 2 => {
                        twin.ops.push(SOp::Advance(dt / 3));
                        for x in 0..nval {
                            twin.ops.push(SOp::Checkpoint(x));
                        }
                        twin.ops.push(SOp::Advance(dt - dt / 3));
                    }
                    other => twin.ops.push(other.clone()),
                }
            }
            let mut scratch = Cx::default();
            let (tviol, ttotals, tstats, _) = self.run(&twin, false, &mut scratch);
            // comparable only if every operation had the same outcome in both runs (a withdrawal that
            // differs by a rounded-off token can make a later "delegate everything" fail in one run)
            if tviol.is_empty() && tstats.outcomes == stats.outcomes {
                for (k, (a, wcount)) in &totals {
                    let (b, _) = ttotals[k];
                    let diff = a.abs_diff(b);
                    if diff > *wcount as u128 + 1 {
                        return Err(Failure::new("C15:path-dependent-rewards", format!("(delegator{}, validator{}) got {} in total, but {} when the same elapsed time is split into more block updates with 0% slashes in between ({} withdrawals)", k.0, k.1, a, b, wcount)));
                    }
                }
                cx.label("twin:compared");
            } else {
                cx.label("twin:not-comparable");
            }
        }
        let nontrivial = match id {
            "C15" => stats.reward_intervals >= 3 && stats.withdrawals >= 1,
            "C16" => stats.slashes_multi,
            _ => stats.partial_undelegate && stats.slash_while_pending && stats.matured_then_more,
        };
        if nontrivial {
            cx.mark_nontrivial();
        }
        Ok(())
    }

    fn shrink(&self, case: &Case) -> Vec<Case> {
        let mut out = vec![];
        let n = case.ops.len();
        if n >= 4 {
            let mut c = case.clone();
            c.ops.truncate(n / 2);
            out.push(c);
        }
        for i in (0..n).rev() {
            let mut c = case.clone();
            c.ops.remove(i);
            out.push(c);
        }
        for i in 0..n {
            let mut c = case.clone();
            let changed = match &mut c.ops[i] {
                SOp::Delegate(_, _, a, f) | SOp::Undelegate(_, _, a, f) | SOp::Redelegate(_, _, _, a, f) => {
                    if *f {
                        *f = false;
                        true
                    } else if let SAmt::Exact(x) = a {
                        if *x > 3 {
                            *x = (*x / 2).max(1);
                            true
                        } else {
                            false
                        }
                    } else {
                        false
                    }
                }
                SOp::Advance(dt) if *dt > 61 => {
                    *dt = 61;
                    true
                }
                SOp::Slash(_, p) if *p != PSpec::Half => {
                    *p = PSpec::Half;
                    true
                }
                _ => false,
            };
            if changed {
                out.push(c);
            }
        }
        if case.commissions.len() > 1 {
            let mut c = case.clone();
            c.commissions.truncate(1);
            out.push(c);
        }
        if case.apr != 100_000_000_000_000_000 {
            let mut c = case.clone();
            c.apr = 100_000_000_000_000_000;
            out.push(c);
        }
        for i in 0..case.funds.len() {
            if case.funds[i] > 200 {
                let mut c = case.clone();
                c.funds[i] = 200;
                out.push(c);
            }
        }
        out
    }
}
