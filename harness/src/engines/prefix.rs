//! C07 — namespaced storage views are exact, disjoint windows onto the base store.
//!
//! Model-based: the base store is mirrored by a BTreeMap of raw keys; a view for path `p` must
//! equal `{ k[|P|..] -> v : k starts_with P }` with `P = concat(len16be(seg) ‖ seg)` (reference
//! encoding written here, independent of the crate's `length_prefixed` module). Views are obtained
//! through the public `App::prefixed_storage(_mut)` / `prefixed_multilevel_storage(_mut)` API.

use crate::driver::{Budget, Check, Cx, Failure, Spec, Tier};
use crate::gen::Gen;
use crate::util::{catch, diff_scans, hexs, scan, Hx, Kv};
use crate::{ensure, fail};
use cosmwasm_std::{Order, Storage};
use cw_multi_test::App;
use serde::{Deserialize, Serialize};

#[derive(Clone, Debug, Serialize, Deserialize, PartialEq, Eq)]
pub enum Seg {
    B(Hx),
    /// `n` bytes of 0xFF (kept symbolic so that the 65535-byte segment stays readable)
    Ff(u32),
    /// `n` bytes of the given value
    Rep(u8, u32),
}

impl Seg {
    pub fn bytes(&self) -> Vec<u8> {
        match self {
            Seg::B(h) => h.0.clone(),
            Seg::Ff(n) => vec![0xFF; *n as usize],
            Seg::Rep(b, n) => vec![*b; *n as usize],
        }
    }
}

pub type Path = Vec<Seg>;

#[derive(Clone, Debug, Serialize, Deserialize)]
pub enum Op {
    /// (view index, read through the read-only constructor?, key)
    Get(usize, bool, Hx),
    Set(usize, Hx, Hx),
    Remove(usize, Hx),
    Range {
        view: usize,
        ro: bool,
        start: Option<Hx>,
        end: Option<Hx>,
        desc: bool,
    },
    /// write through a read-only view: must be rejected (panic) and change nothing
    RoSet(usize, Hx, Hx),
    RoRemove(usize, Hx),
    /// raw write relative to the view's window: which position, suffix, value
    Raw(usize, RawPos, Hx, Hx),
    /// many entries at once: `n` keys (from position `from` of the enumeration of all strings over
    /// {0x00, 0x61, 0xFF} up to length 4, so that keys are prefixes of each other) set through one view
    Fill(usize, usize, usize),
    /// several operations through ONE view object (read-only or mutable), each judged like a single one
    Session(usize, bool, Vec<Step>),
}

#[derive(Clone, Debug, Serialize, Deserialize)]
pub enum Step {
    Get(Hx),
    Set(Hx, Hx),
    Remove(Hx),
    Range(Option<Hx>, Option<Hx>, bool),
}

/// all strings over {0x00, 0x61, 0xFF} of length 0..=4, shortest first (121 keys)
fn small_keys() -> Vec<Vec<u8>> {
    let mut out: Vec<Vec<u8>> = vec![vec![]];
    let mut level: Vec<Vec<u8>> = vec![vec![]];
    for _ in 0..4 {
        let mut next = vec![];
        for k in &level {
            for b in [0x00u8, 0x61, 0xFF] {
                let mut x = k.clone();
                x.push(b);
                next.push(x);
            }
        }
        out.extend(next.iter().cloned());
        level = next;
    }
    out
}

#[derive(Clone, Debug, Serialize, Deserialize)]
pub enum RawPos {
    /// P ‖ suffix (inside the window)
    Inside,
    /// P with last byte decremented ‖ suffix (just below)
    Below,
    /// successor(P) ‖ suffix (just above), P ‖ nothing if no successor
    Above,
    /// P minus its last byte ‖ suffix
    Shorter,
    /// P ‖ 0xFF 0xFF ‖ suffix
    InsideHigh,
    /// suffix alone (arbitrary raw key)
    Free,
}

#[derive(Clone, Debug, Serialize, Deserialize)]
pub struct Case {
    pub paths: Vec<Path>,
    /// force the single-level constructor for one-segment paths
    pub single: Vec<bool>,
    pub ops: Vec<Op>,
}

pub struct PrefixCheck {
    tier: Tier,
}

/// Reference encoding of a namespace path.
pub fn ref_prefix(path: &Path) -> Vec<u8> {
    let mut out = vec![];
    for s in path {
        let b = s.bytes();
        assert!(b.len() <= 0xFFFF);
        out.push((b.len() >> 8) as u8);
        out.push((b.len() & 0xFF) as u8);
        out.extend_from_slice(&b);
    }
    out
}

fn successor(p: &[u8]) -> Option<Vec<u8>> {
    let mut v = p.to_vec();
    while let Some(l) = v.last_mut() {
        if *l == 0xFF {
            v.pop();
        } else {
            *l += 1;
            return Some(v);
        }
    }
    None
}

fn gen_seg(g: &mut Gen) -> Seg {
    match g.weighted(&[10, 4, 4, 3, 2, 2, 2, 1, 1, 1, 1]) {
        0 => Seg::B(Hx(g.pick(&[&b"foo"[..], b"fo", b"food", b"f", b"bar", b"wasm", b"bank"]).to_vec())),
        1 => Seg::B(Hx(vec![])),
        2 => Seg::B(Hx(vec![g.pick(&[0x00u8, 0xFF, 0x01, 0xFE])])),
        3 => Seg::B(Hx(b"\x00\x03foo".to_vec())), // spells another namespace's length prefix
        4 => Seg::B(Hx(g.bytes_from(4, &[0x00, 0xFF, 0x66, 0x6f]))),
        5 => Seg::Ff(1 + g.below(3) as u32),
        6 => Seg::B(Hx(g.bytes_from(6, &[]))),
        7 => Seg::Ff(g.pick(&[255u32, 256, 257])),
        8 => Seg::Ff(65535),
        9 => Seg::Rep(g.pick(&[0x00u8, 0x61, 0xFE]), g.pick(&[255u32, 256, 65535])),
        _ => Seg::B(Hx(b"f\xff\xff".to_vec())),
    }
}

fn gen_path(g: &mut Gen) -> Path {
    let n = g.weighted(&[6, 2, 6, 3, 1]); // index -> number of segments: 1,0,2,3,4
    let n = [1usize, 0, 2, 3, 4][n];
    (0..n).map(|_| gen_seg(g)).collect()
}

fn gen_related(g: &mut Gen, p: &Path) -> Path {
    let mut q = p.clone();
    match g.below(6) {
        0 => gen_path(g),
        1 => {
            q.push(gen_seg(g)); // child
            q
        }
        2 => {
            q.pop(); // parent
            q
        }
        3 => {
            // sibling sharing a byte prefix: tweak the last segment
            if let Some(last) = q.last_mut() {
                let mut b = last.bytes();
                if b.len() <= 8 {
                    match g.below(3) {
                        0 => b.push(g.pick(&[0x00u8, 0x64, 0xFF])),
                        1 => {
                            b.pop();
                        }
                        _ => {
                            if let Some(l) = b.last_mut() {
                                *l = l.wrapping_add(1);
                            }
                        }
                    }
                    *last = Seg::B(Hx(b));
                }
            }
            q
        }
        4 => {
            // merge two segments into one (["a","b"] vs ["ab"]) or split one
            if q.len() >= 2 {
                let b = q.pop().unwrap().bytes();
                let mut a = q.pop().unwrap().bytes();
                if a.len() + b.len() <= 64 {
                    a.extend(b);
                    q.push(Seg::B(Hx(a)));
                }
            }
            q
        }
        _ => p.clone(), // identical path (two handles on one namespace)
    }
}

fn gen_key(g: &mut Gen) -> Vec<u8> {
    match g.weighted(&[6, 8, 2]) {
        0 => vec![],
        1 => g.bytes_from(3, &[0x00, 0x01, 0x61, 0xFF]),
        _ => g.bytes_from(5, &[]),
    }
}

fn gen_val(g: &mut Gen) -> Vec<u8> {
    let n = 1 + g.below(3);
    (0..n).map(|_| g.pick(&[0x01u8, 0x00, 0xFF, 0x76])).collect()
}

fn gen_bound(g: &mut Gen, keys: &[Vec<u8>]) -> Option<Hx> {
    match g.weighted(&[5, 5, 3, 1]) {
        0 => None,
        1 if !keys.is_empty() => {
            let mut k = g.pick_ref(keys).clone();
            match g.below(4) {
                0 => {}
                1 => k.push(0),
                2 => {
                    k.pop();
                }
                _ => {
                    if let Some(l) = k.last_mut() {
                        *l = l.wrapping_add(1);
                    }
                }
            }
            Some(Hx(k))
        }
        3 => Some(Hx(vec![])),
        _ => Some(Hx(gen_key(g))),
    }
}

enum View<'a> {
    Ro(Box<dyn Storage + 'a>),
}

fn open_ro<'a>(app: &'a App, path: &Path, single: bool) -> Box<dyn Storage + 'a> {
    let segs: Vec<Vec<u8>> = path.iter().map(|s| s.bytes()).collect();
    if single && segs.len() == 1 {
        app.prefixed_storage(&segs[0])
    } else {
        let refs: Vec<&[u8]> = segs.iter().map(|s| s.as_slice()).collect();
        app.prefixed_multilevel_storage(&refs)
    }
}

fn open_rw<'a>(app: &'a mut App, path: &Path, single: bool) -> Box<dyn Storage + 'a> {
    let segs: Vec<Vec<u8>> = path.iter().map(|s| s.bytes()).collect();
    if single && segs.len() == 1 {
        app.prefixed_storage_mut(&segs[0])
    } else {
        let refs: Vec<&[u8]> = segs.iter().map(|s| s.as_slice()).collect();
        app.prefixed_multilevel_storage_mut(&refs)
    }
}

fn ref_view(model: &Kv, p: &[u8]) -> Kv {
    model
        .iter()
        .filter(|(k, _)| k.starts_with(p))
        .map(|(k, v)| (k[p.len()..].to_vec(), v.clone()))
        .collect()
}

fn ref_range(view: &Kv, start: Option<&[u8]>, end: Option<&[u8]>, desc: bool) -> Vec<(Vec<u8>, Vec<u8>)> {
    let mut v: Vec<(Vec<u8>, Vec<u8>)> = view
        .iter()
        .filter(|(k, _)| start.map_or(true, |s| k.as_slice() >= s) && end.map_or(true, |e| k.as_slice() < e))
        .map(|(k, v)| (k.clone(), v.clone()))
        .collect();
    if desc {
        v.reverse();
    }
    v
}

fn no_successor(p: &[u8]) -> bool {
    p.iter().all(|b| *b == 0xFF)
}

fn check_raw(app: &App, model: &Kv, what: &str) -> Result<(), Failure> {
    let got = scan(app.storage());
    let want: Vec<_> = model.iter().map(|(k, v)| (k.clone(), v.clone())).collect();
    if let Some(d) = diff_scans(&want, &got) {
        fail!("C07:raw-store-mismatch", "{}: base store differs from reference: {}", what, d);
    }
    Ok(())
}

#[allow(clippy::too_many_arguments)]
fn check_view_range(
    store: &dyn Storage,
    model: &Kv,
    p: &[u8],
    start: Option<&[u8]>,
    end: Option<&[u8]>,
    desc: bool,
    what: &str,
) -> Result<usize, Failure> {
    let order = if desc { Order::Descending } else { Order::Ascending };
    let got: Vec<(Vec<u8>, Vec<u8>)> = store.range(start, end, order).collect();
    // the keys-only and values-only forms of the same iteration
    let gk: Vec<Vec<u8>> = store.range_keys(start, end, order).collect();
    let gv: Vec<Vec<u8>> = store.range_values(start, end, order).collect();
    if gk != got.iter().map(|(k, _)| k.clone()).collect::<Vec<_>>() || gv != got.iter().map(|(_, v)| v.clone()).collect::<Vec<_>>() {
        fail!("C07:range-keys-values-disagree", "{}: range({:?},{:?},desc={}) lists {} entries, range_keys {:?}, range_values {:?}", what, start.map(hexs), end.map(hexs), desc, got.len(), gk.iter().map(|k| hexs(k)).collect::<Vec<_>>(), gv.iter().map(|k| hexs(k)).collect::<Vec<_>>());
    }
    let view = ref_view(model, p);
    let want = ref_range(&view, start, end, desc);
    if got != want {
        let sig = if end.is_none() && no_successor(p) && got.is_empty() {
            "C07:unbounded-end:prefix-without-successor"
        } else if got.len() > want.len() {
            "C07:range-extra-entries"
        } else if got.len() < want.len() {
            "C07:range-missing-entries"
        } else {
            "C07:range-wrong-entries"
        };
        fail!(
            sig,
            "{} (prefix {}): range({:?},{:?},desc={}) got {:?}, window of base gives {:?}",
            what,
            hexs(p),
            start.map(hexs),
            end.map(hexs),
            desc,
            got.iter().map(|(k, v)| format!("{}={}", hexs(k), hexs(v))).collect::<Vec<_>>(),
            want.iter().map(|(k, v)| format!("{}={}", hexs(k), hexs(v))).collect::<Vec<_>>()
        );
    }
    Ok(got.len())
}

fn raw_key(p: &[u8], pos: &RawPos, suffix: &[u8]) -> Vec<u8> {
    let mut k = match pos {
        RawPos::Inside => p.to_vec(),
        RawPos::Below => {
            let mut q = p.to_vec();
            // predecessor of P in "shares a byte prefix" sense
            while let Some(l) = q.last_mut() {
                if *l == 0 {
                    q.pop();
                } else {
                    *l -= 1;
                    break;
                }
            }
            q
        }
        RawPos::Above => successor(p).unwrap_or_else(|| p.to_vec()),
        RawPos::Shorter => {
            let mut q = p.to_vec();
            q.pop();
            q
        }
        RawPos::InsideHigh => {
            let mut q = p.to_vec();
            q.extend_from_slice(&[0xFF, 0xFF]);
            q
        }
        RawPos::Free => vec![],
    };
    k.extend_from_slice(suffix);
    k
}

impl Check for PrefixCheck {
    type Case = Case;

    fn new(_id: &str, tier: Tier) -> Self {
        PrefixCheck { tier }
    }

    fn spec(_id: &str) -> Spec {
        Spec {
            id: "C07",
            level: "exploration",
            rule: "generated: two related namespace paths (0-4 segments from an adversarial pool incl. empty, 00/FF, foo/fo/food, a segment spelling another's length prefix, all-FF of length 1-3/255/256/65535; second path is child/parent/sibling/merged/identical/unrelated), raw keys written inside, just below, just above and around each window, then get/set/remove/range through read-only and mutable views from App::prefixed_*storage*; every result compared with the window of a reference BTreeMap of raw keys under an independently written length-prefix encoding. Non-trivial: a range returning >=1 entry on a view while the base holds raw keys both below and above the window that share a byte prefix with it, or a range on a view whose encoded prefix ends in 0xFF; distinct = distinct serialised case Also: Fill (31-100 keys over {00,61,FF} up to length 4, prefixes of each other, set through one view object and scanned) and Session (3-8 get/set/remove/range steps, inverted bounds included, through ONE view object, read-only or mutable)",
            assumptions: vec![
                "segments longer than 65535 bytes are outside the domain (documented panic)",
                "values are non-empty (an empty value is only used to check that a view passes the base store's refusal on)",
                "MockStorage is a correct ordered map",
            ],
            floor_quick: 300,
        }
    }

    fn budget(_id: &str, tier: Tier) -> Budget {
        match tier {
            Tier::Quick => Budget { cases: 120_000, max_bytes: 500 },
            Tier::Thorough => Budget { cases: 1_500_000, max_bytes: 900 },
        }
    }

    fn generate(&self, g: &mut Gen) -> Case {
        let p0 = gen_path(g);
        let p1 = gen_related(g, &p0);
        let paths = vec![p0, p1];
        let single = vec![g.bool(), g.bool()];
        let max_ops = if self.tier.is_thorough() { 40 } else { 24 };
        let nops = 1 + g.below(max_ops);
        let mut keys: Vec<Vec<u8>> = vec![];
        let mut ops = vec![];
        for _ in 0..nops {
            if g.exhausted() {
                break;
            }
            let v = g.below(2);
            let op = match g.weighted(&[6, 5, 3, 8, 1, 1, 7, 1, 3]) {
                0 => {
                    let k = if !keys.is_empty() && g.chance(1, 2) { g.pick_ref(&keys).clone() } else { gen_key(g) };
                    keys.push(k.clone());
                    Op::Set(v, Hx(k), Hx(gen_val(g)))
                }
                1 => {
                    let k = if !keys.is_empty() && g.chance(2, 3) { g.pick_ref(&keys).clone() } else { gen_key(g) };
                    Op::Get(v, g.bool(), Hx(k))
                }
                2 => {
                    let k = if !keys.is_empty() && g.chance(3, 4) { g.pick_ref(&keys).clone() } else { gen_key(g) };
                    Op::Remove(v, Hx(k))
                }
                3 => Op::Range {
                    view: v,
                    ro: g.bool(),
                    start: gen_bound(g, &keys),
                    end: gen_bound(g, &keys),
                    desc: g.bool(),
                },
                7 => {
                    let n = g.pick(&[31usize, 32, 33, 34, 40, 64, 65, 81, 100]);
                    let all = small_keys();
                    let from = g.below(all.len() - n + 1);
                    keys.extend(all[from..from + n].iter().step_by(7).cloned());
                    Op::Fill(v, n, from)
                }
                8 => {
                    let ro = g.chance(1, 3);
                    let n = 3 + g.below(6);
                    let steps = (0..n)
                        .map(|_| {
                            let k = if !keys.is_empty() && g.chance(2, 3) { g.pick_ref(&keys).clone() } else { gen_key(g) };
                            match g.weighted(&[3, if ro { 0 } else { 3 }, if ro { 0 } else { 2 }, 6]) {
                                0 => Step::Get(Hx(k)),
                                1 => {
                                    keys.push(k.clone());
                                    Step::Set(Hx(k), Hx(gen_val(g)))
                                }
                                2 => Step::Remove(Hx(k)),
                                _ => Step::Range(gen_bound(g, &keys), gen_bound(g, &keys), g.bool()),
                            }
                        })
                        .collect();
                    Op::Session(v, ro, steps)
                }
                4 => Op::RoSet(v, Hx(gen_key(g)), Hx(gen_val(g))),
                5 => Op::RoRemove(v, Hx(if !keys.is_empty() { g.pick_ref(&keys).clone() } else { gen_key(g) })),
                _ => {
                    let pos = match g.below(6) {
                        0 => RawPos::Inside,
                        1 => RawPos::Below,
                        2 => RawPos::Above,
                        3 => RawPos::Shorter,
                        4 => RawPos::InsideHigh,
                        _ => RawPos::Free,
                    };
                    let k = gen_key(g);
                    if matches!(pos, RawPos::Inside) {
                        keys.push(k.clone());
                    }
                    Op::Raw(v, pos, Hx(k), Hx(gen_val(g)))
                }
            };
            ops.push(op);
        }
        Case { paths, single, ops }
    }

    fn execute(&self, case: &Case, cx: &mut Cx) -> Result<(), Failure> {
        let _ = View::Ro;
        ensure!(case.paths.len() == 2 && case.single.len() == 2, "harness:bad-case", "need two paths");
        let mut app = App::default();
        let mut model = Kv::new();
        let prefixes: Vec<Vec<u8>> = case.paths.iter().map(ref_prefix).collect();
        for p in &case.paths {
            cx.label(&format!("segments:{}", p.len()));
            if p.iter().any(|s| s.bytes().len() == 65535) {
                cx.label("path:has-65535-segment");
            }
        }
        for p in &prefixes {
            if p.last() == Some(&0xFF) {
                cx.label("prefix:ends-in-FF");
            }
            if no_successor(p) {
                cx.label("prefix:no-successor");
            }
        }
        for op in &case.ops {
            match op {
                Op::Get(v, ro, k) => {
                    let p = &prefixes[*v];
                    let want = {
                        let mut rk = p.clone();
                        rk.extend_from_slice(&k.0);
                        model.get(&rk).cloned()
                    };
                    let got = if *ro {
                        open_ro(&app, &case.paths[*v], case.single[*v]).get(&k.0)
                    } else {
                        open_rw(&mut app, &case.paths[*v], case.single[*v]).get(&k.0)
                    };
                    ensure!(
                        got == want,
                        "C07:get-mismatch",
                        "view {} (prefix {}): get({}) = {:?}, base holds {:?} under the prefixed key",
                        v, hexs(p), hexs(&k.0), got.as_deref().map(hexs), want.as_deref().map(hexs)
                    );
                }
                Op::Set(v, k, val) => {
                    if val.0.is_empty() {
                        continue;
                    }
                    let p = &prefixes[*v];
                    let mut rk = p.clone();
                    rk.extend_from_slice(&k.0);
                    model.insert(rk, val.0.clone());
                    {
                        // the same view object keeps working after a write: read back and iterate through it
                        let mut st = open_rw(&mut app, &case.paths[*v], case.single[*v]);
                        st.set(&k.0, &val.0);
                        let back = st.get(&k.0);
                        ensure!(back.as_deref() == Some(val.0.as_slice()), "C07:get-mismatch", "get({}) through the mutable view that has just set it returns {:?}", hexs(&k.0), back.as_deref().map(hexs));
                        check_view_range(st.as_ref(), &model, p, None, None, k.0.len() % 2 == 1, "the mutable view object right after a set through it")?;
                    }
                    check_raw(&app, &model, "after set through a view")?;
                }
                Op::Remove(v, k) => {
                    let p = &prefixes[*v];
                    let mut rk = p.clone();
                    rk.extend_from_slice(&k.0);
                    model.remove(&rk);
                    {
                        let mut st = open_rw(&mut app, &case.paths[*v], case.single[*v]);
                        st.remove(&k.0);
                        ensure!(st.get(&k.0).is_none(), "C07:get-mismatch", "get({}) through the mutable view that has just removed it still returns a value", hexs(&k.0));
                        check_view_range(st.as_ref(), &model, p, None, None, k.0.len() % 2 == 0, "the mutable view object right after a remove through it")?;
                    }
                    check_raw(&app, &model, "after remove through a view")?;
                }
                Op::Fill(v, n, from) => {
                    let p = &prefixes[*v];
                    let all = small_keys();
                    // (under a very long prefix - segments of up to 65535 bytes - a few entries do: every key carries the whole prefix)
                    let (from, n) = ((*from).min(all.len()), (*n).min(if p.len() > 1024 { 3 } else { all.len() }));
                    let chosen: Vec<Vec<u8>> = all.iter().skip(from).take(n).cloned().collect();
                    {
                        let mut st = open_rw(&mut app, &case.paths[*v], case.single[*v]);
                        for (i, k) in chosen.iter().enumerate() {
                            let val = vec![1 + (i % 250) as u8];
                            st.set(k, &val);
                            let mut rk = p.clone();
                            rk.extend_from_slice(k);
                            model.insert(rk, val);
                        }
                        check_view_range(st.as_ref(), &model, p, None, None, false, "the mutable view object after many sets through it")?;
                        check_view_range(st.as_ref(), &model, p, None, None, true, "the mutable view object after many sets through it")?;
                    }
                    for (s, e, desc) in [(None, None, false), (Some(&[0x00u8][..]), None, false), (Some(&[0x61u8][..]), Some(&[0xFFu8, 0xFF][..]), false), (None, Some(&[0x61u8, 0x61][..]), true)] {
                        let st = open_ro(&app, &case.paths[*v], case.single[*v]);
                        check_view_range(st.as_ref(), &model, p, s, e, desc, "read-only view of a well-filled namespace")?;
                    }
                    check_raw(&app, &model, "after many sets through a view")?;
                    cx.label("fill");
                    if ref_view(&model, p).len() > 32 {
                        cx.label("view:more-than-32-entries");
                    }
                }
                Op::Session(v, ro, steps) => {
                    let p = &prefixes[*v];
                    let mut st = if *ro { open_ro(&app, &case.paths[*v], case.single[*v]) } else { open_rw(&mut app, &case.paths[*v], case.single[*v]) };
                    for (i, step) in steps.iter().enumerate() {
                        let what = format!("step {} of a session on one {} view object", i, if *ro { "read-only" } else { "mutable" });
                        match step {
                            Step::Get(k) => {
                                let mut rk = p.clone();
                                rk.extend_from_slice(&k.0);
                                let (got, want) = (st.get(&k.0), model.get(&rk).cloned());
                                ensure!(got == want, "C07:get-mismatch", "{}: get({}) = {:?}, base holds {:?}", what, hexs(&k.0), got.as_deref().map(hexs), want.as_deref().map(hexs));
                            }
                            Step::Set(k, val) if !*ro && !val.0.is_empty() => {
                                let mut rk = p.clone();
                                rk.extend_from_slice(&k.0);
                                st.set(&k.0, &val.0);
                                model.insert(rk, val.0.clone());
                            }
                            Step::Remove(k) if !*ro => {
                                let mut rk = p.clone();
                                rk.extend_from_slice(&k.0);
                                st.remove(&k.0);
                                model.remove(&rk);
                            }
                            Step::Range(s, e, desc) => {
                                check_view_range(st.as_ref(), &model, p, s.as_ref().map(|x| x.0.as_slice()), e.as_ref().map(|x| x.0.as_slice()), *desc, &what)?;
                            }
                            _ => {}
                        }
                    }
                    drop(st);
                    check_raw(&app, &model, "after a session on one view object")?;
                    cx.label("session");
                }
                Op::Range { view, ro, start, end, desc } => {
                    let p = &prefixes[*view];
                    let s = start.as_ref().map(|x| x.0.as_slice());
                    let e = end.as_ref().map(|x| x.0.as_slice());
                    let n = if *ro {
                        let st = open_ro(&app, &case.paths[*view], case.single[*view]);
                        check_view_range(st.as_ref(), &model, p, s, e, *desc, "read-only view")?
                    } else {
                        let st = open_rw(&mut app, &case.paths[*view], case.single[*view]);
                        check_view_range(st.as_ref(), &model, p, s, e, *desc, "mutable view")?
                    };
                    cx.label("range");
                    if e.is_none() {
                        cx.label("range:unbounded-end");
                    }
                    // non-trivial rule
                    let below = model.keys().any(|k| k.as_slice() < p.as_slice() && !p.is_empty() && k.first() == p.first());
                    let above = model.keys().any(|k| !k.starts_with(p) && k.as_slice() > p.as_slice() && !p.is_empty() && k.first() == p.first());
                    if (n > 0 && below && above) || p.last() == Some(&0xFF) {
                        cx.mark_nontrivial();
                        cx.label("range:nontrivial");
                    }
                }
                Op::RoSet(v, k, val) => {
                    let before = scan(app.storage());
                    let r = catch(|| {
                        let mut st = open_ro(&app, &case.paths[*v], case.single[*v]);
                        st.set(&k.0, &val.0);
                    });
                    ensure!(r.is_err(), "C07:readonly-accepts-write", "set through a read-only view of prefix {} was not rejected", hexs(&prefixes[*v]));
                    // also the write that would change nothing: the very value the key already holds
                    let current = open_ro(&app, &case.paths[*v], case.single[*v]).get(&k.0);
                    if let Some(cur) = current.filter(|c| !c.is_empty()) {
                        let r2 = catch(|| {
                            let mut st = open_ro(&app, &case.paths[*v], case.single[*v]);
                            st.set(&k.0, &cur);
                        });
                        ensure!(r2.is_err(), "C07:readonly-accepts-write", "set of the value already stored, through a read-only view of prefix {}, was not rejected", hexs(&prefixes[*v]));
                        cx.label("readonly-write-rejected:same-value");
                    }
                    let after = scan(app.storage());
                    ensure!(before == after, "C07:readonly-write-changed-base", "rejected set through read-only view changed the base: {:?}", diff_scans(&before, &after));
                    cx.label("readonly-write-rejected");
                    // a set on the *mutable* view is the set on the raw key: the base store refuses an
                    // empty value (documented panic of MemoryStorage::set), so must the view - it may not
                    // turn the call into something else
                    let r3 = catch(|| {
                        let mut st = open_rw(&mut app, &case.paths[*v], case.single[*v]);
                        st.set(&k.0, &[]);
                    });
                    let after = scan(app.storage());
                    ensure!(r3.is_err() && before == after, "C07:empty-value-not-passed-to-base", "set(key {}, empty value) through the mutable view of prefix {}: the raw store refuses it, the view {} and the base {}", hexs(&k.0), hexs(&prefixes[*v]), if r3.is_err() { "refused it" } else { "accepted it" }, if before == after { "is unchanged" } else { "changed" });
                }
                Op::RoRemove(v, k) => {
                    let before = scan(app.storage());
                    let r = catch(|| {
                        let mut st = open_ro(&app, &case.paths[*v], case.single[*v]);
                        st.remove(&k.0);
                    });
                    ensure!(r.is_err(), "C07:readonly-accepts-write", "remove through a read-only view of prefix {} was not rejected", hexs(&prefixes[*v]));
                    let after = scan(app.storage());
                    ensure!(before == after, "C07:readonly-write-changed-base", "rejected remove through read-only view changed the base: {:?}", diff_scans(&before, &after));
                    cx.label("readonly-write-rejected");
                }
                Op::Raw(v, pos, suffix, val) => {
                    if val.0.is_empty() {
                        continue;
                    }
                    let rk = raw_key(&prefixes[*v], pos, &suffix.0);
                    app.storage_mut().set(&rk, &val.0);
                    model.insert(rk, val.0.clone());
                }
            }
        }
        // final: both views, both constructors where possible, full scans in both orders
        for (i, path) in case.paths.iter().enumerate() {
            let p = &prefixes[i];
            for desc in [false, true] {
                let st = open_ro(&app, path, case.single[i]);
                check_view_range(st.as_ref(), &model, p, None, None, desc, "final scan, read-only view")?;
                drop(st);
                let st = open_rw(&mut app, path, case.single[i]);
                check_view_range(st.as_ref(), &model, p, None, None, desc, "final scan, mutable view")?;
                // also with an explicit empty start bound
                check_view_range(st.as_ref(), &model, p, Some(&[]), None, desc, "final scan from empty start")?;
            }
        }
        // relation between the two views, judged on the views' own output (not on the model)
        let a: Vec<(Vec<u8>, Vec<u8>)> = open_ro(&app, &case.paths[0], case.single[0]).range(None, None, Order::Ascending).collect();
        let b: Vec<(Vec<u8>, Vec<u8>)> = open_ro(&app, &case.paths[1], case.single[1]).range(None, None, Order::Ascending).collect();
        let (pa, pb) = (&case.paths[0], &case.paths[1]);
        let ext = |short: &Path, long: &Path| long.len() >= short.len() && long[..short.len()].iter().map(|s| s.bytes()).eq(short.iter().map(|s| s.bytes()));
        if ext(pa, pb) || ext(pb, pa) {
            let (short, long, short_scan, long_scan) = if ext(pa, pb) { (pa, pb, &a, &b) } else { (pb, pa, &b, &a) };
            let rem: Path = long[short.len()..].to_vec();
            let r = ref_prefix(&rem);
            let expect: Vec<(Vec<u8>, Vec<u8>)> = short_scan
                .iter()
                .filter(|(k, _)| k.starts_with(&r))
                .map(|(k, v)| (k[r.len()..].to_vec(), v.clone()))
                .collect();
            ensure!(
                &expect == long_scan,
                "C07:subwindow-mismatch",
                "view of the longer path is not the sub-window of the shorter one: longer has {} entries, sub-window {}",
                long_scan.len(),
                expect.len()
            );
            cx.label("relation:extension");
        } else {
            // disjoint raw key sets
            let ra: std::collections::BTreeSet<Vec<u8>> = a.iter().map(|(k, _)| [prefixes[0].clone(), k.clone()].concat()).collect();
            let rb: std::collections::BTreeSet<Vec<u8>> = b.iter().map(|(k, _)| [prefixes[1].clone(), k.clone()].concat()).collect();
            let common = ra.intersection(&rb).next();
            ensure!(common.is_none(), "C07:views-overlap", "views of unrelated paths share raw key {:?}", common.map(|k| hexs(k)));
            cx.label("relation:unrelated");
        }
        check_raw(&app, &model, "end of case")
    }

    fn shrink(&self, case: &Case) -> Vec<Case> {
        let mut out = vec![];
        if case.ops.len() >= 4 {
            let mut c = case.clone();
            c.ops.truncate(case.ops.len() / 2);
            out.push(c);
            let mut c = case.clone();
            c.ops.drain(..case.ops.len() / 2);
            out.push(c);
        }
        for i in 0..case.ops.len() {
            let mut c = case.clone();
            c.ops.remove(i);
            out.push(c);
        }
        // make the second path identical to the first / drop segments
        if case.paths[1] != case.paths[0] {
            let mut c = case.clone();
            c.paths[1] = c.paths[0].clone();
            out.push(c);
        }
        for pi in 0..2 {
            for si in 0..case.paths[pi].len() {
                let mut c = case.clone();
                c.paths[pi].remove(si);
                out.push(c);
                // shorten a literal segment
                if let Seg::B(h) = &case.paths[pi][si] {
                    if !h.0.is_empty() {
                        let mut c = case.clone();
                        let mut b = h.0.clone();
                        b.pop();
                        c.paths[pi][si] = Seg::B(Hx(b));
                        out.push(c);
                    }
                }
            }
        }
        out
    }
}
