//! C09 — the bank ledger conserves coins and never overdraws.
//!
//! Model-based: a reference ledger (BTreeMap address -> denom -> u128, sum-per-denom semantics)
//! is compared with Balance / AllBalances / Supply queries for every account and denomination
//! after every operation; failed operations must leave root storage byte-identical.

use crate::driver::{Budget, Check, Cx, Failure, Spec, Tier};
use crate::gen::Gen;
use crate::util::{catch, diff_scans, scan};
use crate::{ensure, fail};
use cosmwasm_std::{
    coin, to_json_binary, Addr, BankMsg, Binary, Coin, CosmosMsg, Deps, DepsMut, Empty, Env, MessageInfo, Response, StdResult, Uint128, WasmMsg,
};
use cw_multi_test::{App, BankSudo, ContractWrapper, Executor, IntoAddr, SudoMsg};
use serde::{Deserialize, Serialize};
use std::collections::{BTreeMap, BTreeSet};

pub const DENOMS: [&str; 10] = ["uatom", "TOKEN", "eth", "aaa", "btc", "dot", "ibc/x", "juno", "sol", "zzz"];
const N_USERS: usize = 4;
const N_FRESH: usize = 5;

/// account index: 0..4 users, 4..9 never-seen recipients, 9 = the forwarder contract
pub type Acct = usize;
const CONTRACT: Acct = N_USERS + N_FRESH;

#[derive(Clone, Debug, Serialize, Deserialize, PartialEq, Eq)]
pub struct C(pub usize, pub u128); // (denom index, amount)

#[derive(Clone, Debug, Serialize, Deserialize)]
pub enum Op {
    /// BankKeeper::init_balance: sets the balance to the (summed, zero-free) coin list
    Init(Acct, Vec<C>),
    Mint(Acct, Vec<C>),
    Send(Acct, Acct, Vec<C>),
    Burn(Acct, Vec<C>),
    /// Executor::send_tokens helper
    SendTokens(Acct, Acct, Vec<C>),
    /// user calls the forwarder contract with attached funds; the contract then sends / burns
    ViaContract {
        user: Acct,
        funds: Vec<C>,
        action: Fwd,
        /// the contract finishes with a call to itself, whose entry observes the ledger once more
        /// (after its own sends / burns, still inside the transaction)
        #[serde(default)]
        probe: bool,
    },
}

#[derive(Clone, Debug, Serialize, Deserialize)]
pub enum Fwd {
    Nothing,
    Send(Acct, Vec<C>),
    Burn(Vec<C>),
    /// two sends in sequence (second may overdraw => everything incl. attached funds rolls back)
    Send2(Acct, Vec<C>, Acct, Vec<C>),
}

#[derive(Clone, Debug, Serialize, Deserialize)]
pub struct Case {
    pub ops: Vec<Op>,
}

#[derive(Serialize, Deserialize, Clone, Debug)]
pub enum FwdMsg {
    Nothing,
    /// like the inner message, followed by a call to the contract itself
    ThenProbe(Box<FwdMsg>),
    Send { to: String, amount: Vec<Coin> },
    Burn { amount: Vec<Coin> },
    Send2 { to1: String, amount1: Vec<Coin>, to2: String, amount2: Vec<Coin> },
}

thread_local! {
    /// addresses of all accounts, ledgers expected at the successive in-transaction observation
    /// points of the running operation, number of observations made, first disagreement
    static PROBE: std::cell::RefCell<(Vec<Addr>, Vec<Ledger>, usize, Option<Failure>)> = std::cell::RefCell::new((vec![], vec![], 0, None));
}

/// the contract looks at the ledger through its own querier, i.e. in the middle of the transaction
fn observe(deps: &DepsMut) {
    let (addrs, expect, idx) = PROBE.with(|p| {
        let p = p.borrow();
        (p.0.clone(), p.1.clone(), p.2)
    });
    PROBE.with(|p| p.borrow_mut().2 += 1);
    let Some(led) = expect.get(idx) else { return };
    if let Err(f) = check_view(&deps.querier, &addrs, led, &format!("inside the transaction (observation {} made by the contract)", idx)) {
        PROBE.with(|p| {
            let mut p = p.borrow_mut();
            if p.3.is_none() {
                p.3 = Some(f);
            }
        });
    }
}

fn fwd_execute(deps: DepsMut, env: Env, _info: MessageInfo, msg: FwdMsg) -> StdResult<Response> {
    observe(&deps);
    let (msg, probe) = match msg {
        FwdMsg::ThenProbe(inner) => (*inner, true),
        m => (m, false),
    };
    let resp = fwd_act(msg);
    Ok(if probe { resp.add_message(WasmMsg::Execute { contract_addr: env.contract.address.to_string(), msg: to_json_binary(&FwdMsg::Nothing)?, funds: vec![] }) } else { resp })
}

fn fwd_act(msg: FwdMsg) -> Response {
    match msg {
        FwdMsg::ThenProbe(_) => Response::new(),
        FwdMsg::Nothing => Response::new(),
        FwdMsg::Send { to, amount } => Response::new().add_message(BankMsg::Send { to_address: to, amount }),
        FwdMsg::Burn { amount } => Response::new().add_message(BankMsg::Burn { amount }),
        FwdMsg::Send2 { to1, amount1, to2, amount2 } => Response::new()
            .add_message(BankMsg::Send { to_address: to1, amount: amount1 })
            .add_message(BankMsg::Send { to_address: to2, amount: amount2 }),
    }
}
fn fwd_instantiate(_deps: DepsMut, _env: Env, _info: MessageInfo, _msg: Empty) -> StdResult<Response> {
    Ok(Response::new())
}
fn fwd_query(_deps: Deps, _env: Env, _msg: Empty) -> StdResult<Binary> {
    to_json_binary(&Empty {})
}

// ---------------------------------------------------------------- reference ledger

#[derive(Clone, Default, Debug, PartialEq, Eq)]
pub struct Ledger {
    pub bal: BTreeMap<Acct, BTreeMap<usize, u128>>,
}

impl Ledger {
    pub fn get(&self, a: Acct, d: usize) -> u128 {
        self.bal.get(&a).and_then(|m| m.get(&d)).copied().unwrap_or(0)
    }
    fn positive(coins: &[C]) -> bool {
        coins.iter().any(|c| c.1 > 0)
    }
    /// debit: Err if no positive amount or any per-denom sum exceeds the balance
    pub fn debit(&mut self, a: Acct, coins: &[C]) -> Result<(), ()> {
        if !Self::positive(coins) {
            return Err(());
        }
        let mut sums: BTreeMap<usize, u128> = BTreeMap::new();
        for c in coins {
            *sums.entry(c.0).or_insert(0) += c.1;
        }
        for (d, s) in &sums {
            if *s > self.get(a, *d) {
                return Err(());
            }
        }
        for (d, s) in sums {
            *self.bal.entry(a).or_default().entry(d).or_insert(0) -= s;
        }
        Ok(())
    }
    pub fn credit(&mut self, a: Acct, coins: &[C]) -> Result<(), ()> {
        if !Self::positive(coins) {
            return Err(());
        }
        for c in coins {
            *self.bal.entry(a).or_default().entry(c.0).or_insert(0) += c.1;
        }
        Ok(())
    }
    pub fn send(&mut self, from: Acct, to: Acct, coins: &[C]) -> Result<(), ()> {
        let mut next = self.clone();
        next.debit(from, coins)?;
        next.credit(to, coins)?;
        *self = next;
        Ok(())
    }
    pub fn supply(&self, d: usize) -> u128 {
        self.bal.values().map(|m| m.get(&d).copied().unwrap_or(0)).sum()
    }
    /// applies an op; Ok(()) / Err(()) is the predicted outcome, state unchanged on Err
    pub fn apply(&mut self, op: &Op) -> Result<(), ()> {
        let mut next = self.clone();
        match op {
            Op::Init(a, coins) => {
                let mut m = BTreeMap::new();
                for c in coins {
                    *m.entry(c.0).or_insert(0u128) += c.1;
                }
                next.bal.insert(*a, m);
            }
            Op::Mint(a, coins) => next.credit(*a, coins)?,
            Op::Send(f, t, coins) | Op::SendTokens(f, t, coins) => next.send(*f, *t, coins)?,
            Op::Burn(a, coins) => next.debit(*a, coins)?,
            Op::ViaContract { user, funds, action, .. } => {
                // attached funds: an empty list moves nothing; a non-empty list is a bank send
                if !funds.is_empty() {
                    next.send(*user, CONTRACT, funds)?;
                }
                match action {
                    Fwd::Nothing => {}
                    Fwd::Send(to, coins) => next.send(CONTRACT, *to, coins)?,
                    Fwd::Burn(coins) => next.debit(CONTRACT, coins)?,
                    Fwd::Send2(t1, c1, t2, c2) => {
                        next.send(CONTRACT, *t1, c1)?;
                        next.send(CONTRACT, *t2, c2)?;
                    }
                }
            }
        }
        *self = next;
        Ok(())
    }
}

// ---------------------------------------------------------------- generator

const CAP: u128 = 1u128 << 90;

fn gen_amount(g: &mut Gen, bal: u128) -> u128 {
    let v = match g.weighted(&[4, 3, 2, 2, 1, 3, 3, 1]) {
        0 => 1,
        1 => bal,
        2 => bal.saturating_add(1),
        3 => bal.saturating_sub(1),
        4 => 0,
        5 => bal / 2,
        6 => g.range(0, 1000) as u128,
        _ => (g.u64() as u128) << g.below(26),
    };
    v.min(CAP)
}

/// mostly one of the three common denominations, sometimes any of the ten
fn gen_denom(g: &mut Gen) -> usize {
    if g.chance(1, 5) {
        g.below(DENOMS.len())
    } else {
        g.below(3)
    }
}

fn gen_coins(g: &mut Gen, led: &Ledger, from: Option<Acct>) -> Vec<C> {
    let bal = |d: usize| from.map(|a| led.get(a, d)).unwrap_or(1000);
    match g.weighted(&[10, 4, 2, 2, 1, 1]) {
        5 => {
            // a long list (nine to fourteen coins): every denomination once, some of them again, small amounts
            let extra = g.below(5);
            let mut v: Vec<C> = (0..DENOMS.len()).map(|d| C(d, 1 + g.below(3) as u128)).collect();
            if g.chance(1, 3) {
                v.remove(g.below(v.len()));
            }
            for _ in 0..extra {
                let at = g.below(v.len() + 1);
                v.insert(at, C(gen_denom(g), 1 + g.below(9) as u128));
            }
            if g.bool() {
                v.reverse();
            }
            v
        }
        0 => {
            let d = gen_denom(g);
            vec![C(d, gen_amount(g, bal(d)))]
        }
        1 => {
            // repeated denomination: sum exactly at / just above the balance
            let d = gen_denom(g);
            let b = bal(d);
            let a = b / 2;
            let rest = b - a;
            let over = if g.bool() { 1 } else { 0 };
            let mut v = vec![C(d, a + over), C(d, rest)];
            if g.chance(1, 3) {
                v.push(C(gen_denom(g), gen_amount(g, 0)));
            }
            v
        }
        2 => {
            let n = g.below(5);
            (0..n).map(|_| { let d = gen_denom(g); C(d, gen_amount(g, bal(d))) }).collect()
        }
        3 => {
            // zeros mixed with positive / all zero
            let n = 1 + g.below(3);
            let mut v: Vec<C> = (0..n).map(|_| C(gen_denom(g), 0)).collect();
            if g.bool() {
                let d = gen_denom(g);
                let at = g.below(v.len() + 1);
                v.insert(at, C(d, gen_amount(g, bal(d))));
            }
            v
        }
        _ => vec![],
    }
}

fn gen_op(g: &mut Gen, led: &Ledger) -> Op {
    let user = |g: &mut Gen| g.below(N_USERS);
    let any = |g: &mut Gen| match g.weighted(&[6, 3, 1]) {
        0 => g.below(N_USERS),
        1 => N_USERS + g.below(N_FRESH),
        _ => CONTRACT,
    };
    match g.weighted(&[8, 4, 4, 1, 3, 5]) {
        0 => {
            let f = user(g);
            let t = if g.chance(1, 6) { f } else { any(g) };
            Op::Send(f, t, gen_coins(g, led, Some(f)))
        }
        1 => {
            let a = any(g);
            if g.chance(1, 5) {
                // every denomination at once, listed in descending order
                Op::Mint(a, (0..DENOMS.len()).rev().map(|d| C(d, 1 + d as u128)).collect())
            } else {
                Op::Mint(a, gen_coins(g, led, None))
            }
        }
        2 => {
            let a = user(g);
            Op::Burn(a, gen_coins(g, led, Some(a)))
        }
        3 => Op::Init(any(g), gen_coins(g, led, None)),
        4 => {
            let f = user(g);
            let t = if g.chance(1, 6) { f } else { any(g) };
            Op::SendTokens(f, t, gen_coins(g, led, Some(f)))
        }
        _ => {
            let u = user(g);
            let funds = if g.chance(1, 4) { vec![] } else { gen_coins(g, led, Some(u)) };
            // the contract's balance after receiving the funds
            let mut after = led.clone();
            if !funds.is_empty() {
                let _ = after.send(u, CONTRACT, &funds);
            }
            let action = match g.weighted(&[1, 5, 2, 3]) {
                0 => Fwd::Nothing,
                1 => {
                    let t = if g.chance(1, 6) { CONTRACT } else { any(g) };
                    Fwd::Send(t, gen_coins(g, &after, Some(CONTRACT)))
                }
                2 => Fwd::Burn(gen_coins(g, &after, Some(CONTRACT))),
                _ => {
                    let t1 = any(g);
                    let c1 = gen_coins(g, &after, Some(CONTRACT));
                    let mut after2 = after.clone();
                    let _ = after2.send(CONTRACT, t1, &c1);
                    let t2 = any(g);
                    Fwd::Send2(t1, c1, t2, gen_coins(g, &after2, Some(CONTRACT)))
                }
            };
            Op::ViaContract { user: u, funds, action, probe: g.bool() }
        }
    }
}

// ---------------------------------------------------------------- execution

fn to_coins(cs: &[C]) -> Vec<Coin> {
    cs.iter().map(|c| coin(c.1, DENOMS[c.0 % DENOMS.len()])).collect()
}

struct World {
    app: App,
    addrs: Vec<Addr>,
}

fn setup() -> World {
    let mut app = App::default();
    let mut addrs: Vec<Addr> = (0..N_USERS).map(|i| format!("user{}", i).into_addr()).collect();
    addrs.extend((0..N_FRESH).map(|i| format!("fresh{}", i).into_addr()));
    let code = app.store_code(Box::new(ContractWrapper::new(fwd_execute, fwd_instantiate, fwd_query)));
    let c = app
        .instantiate_contract(code, addrs[0].clone(), &Empty {}, &[], "forwarder", None)
        .expect("forwarder instantiation");
    addrs.push(c);
    World { app, addrs }
}

fn check_queries(w: &World, led: &Ledger, step: usize) -> Result<(), Failure> {
    check_view(&w.app.wrap(), &w.addrs, led, &format!("after op {}", step))
}

fn check_view(q: &cosmwasm_std::QuerierWrapper, addrs: &[Addr], led: &Ledger, step: &str) -> Result<(), Failure> {
    for (i, addr) in addrs.iter().enumerate() {
        let mut want_all: Vec<Coin> = vec![];
        for (d, name) in DENOMS.iter().enumerate() {
            let want = led.get(i, d);
            let got = q.query_balance(addr, *name);
            match got {
                Ok(c) => ensure!(
                    c.amount.u128() == want && c.denom == *name,
                    "C09:balance-mismatch",
                    "{}: Balance({}, {}) = {} but the sum of all prior operations gives {}",
                    step, i, name, c, want
                ),
                Err(e) => fail!("C09:query-failed", "Balance query failed: {}", e),
            }
            if want > 0 {
                want_all.push(coin(want, *name));
            }
        }
        want_all.sort_by(|a, b| a.denom.cmp(&b.denom));
        #[allow(deprecated)]
        let all = q.query_all_balances(addr);
        match all {
            Ok(all) => {
                let dup = all.windows(2).any(|p| p[0].denom >= p[1].denom);
                let zero = all.iter().any(|c| c.amount.is_zero());
                ensure!(!dup, "C09:all-balances-not-normalised", "{}: AllBalances({}) = {:?} is not strictly sorted by denom", step, i, all);
                ensure!(!zero, "C09:all-balances-has-zero-entry", "{}: AllBalances({}) = {:?} lists a zero amount", step, i, all);
                ensure!(all == want_all, "C09:all-balances-mismatch", "{}: AllBalances({}) = {:?}, expected {:?}", step, i, all, want_all);
            }
            Err(e) => fail!("C09:query-failed", "AllBalances query failed: {}", e),
        }
    }
    for (d, name) in DENOMS.iter().enumerate() {
        let want = led.supply(d);
        match q.query_supply(*name) {
            Ok(c) => ensure!(
                c.amount == Uint128::new(want),
                "C09:supply-mismatch",
                "{}: Supply({}) = {} but the ledger total is {}",
                step, name, c.amount, want
            ),
            Err(e) => fail!("C09:query-failed", "Supply query failed: {}", e),
        }
    }
    Ok(())
}

fn run_op(w: &mut World, op: &Op) -> Result<bool, String> {
    let a = |i: Acct| w.addrs[i % w.addrs.len()].clone();
    let r = match op {
        Op::Init(acct, coins) => {
            let addr = a(*acct);
            let coins = to_coins(coins);
            catch(|| w.app.init_modules(|router, _, storage| router.bank.init_balance(storage, &addr, coins)).map(|_| ()))
        }
        Op::Mint(acct, coins) => {
            let msg = SudoMsg::Bank(BankSudo::Mint { to_address: a(*acct).to_string(), amount: to_coins(coins) });
            catch(|| w.app.sudo(msg).map(|_| ()))
        }
        Op::Send(f, t, coins) => {
            let msg: CosmosMsg = BankMsg::Send { to_address: a(*t).to_string(), amount: to_coins(coins) }.into();
            let from = a(*f);
            catch(|| w.app.execute(from, msg).map(|_| ()))
        }
        Op::SendTokens(f, t, coins) => {
            let (from, to, coins) = (a(*f), a(*t), to_coins(coins));
            catch(|| w.app.send_tokens(from, to, &coins).map(|_| ()))
        }
        Op::Burn(f, coins) => {
            let msg: CosmosMsg = BankMsg::Burn { amount: to_coins(coins) }.into();
            let from = a(*f);
            catch(|| w.app.execute(from, msg).map(|_| ()))
        }
        Op::ViaContract { user, funds, action, probe } => {
            let fmsg = match action {
                Fwd::Nothing => FwdMsg::Nothing,
                Fwd::Send(t, c) => FwdMsg::Send { to: a(*t).to_string(), amount: to_coins(c) },
                Fwd::Burn(c) => FwdMsg::Burn { amount: to_coins(c) },
                Fwd::Send2(t1, c1, t2, c2) => FwdMsg::Send2 { to1: a(*t1).to_string(), amount1: to_coins(c1), to2: a(*t2).to_string(), amount2: to_coins(c2) },
            };
            let fmsg = if *probe { FwdMsg::ThenProbe(Box::new(fmsg)) } else { fmsg };
            let msg: CosmosMsg = WasmMsg::Execute { contract_addr: a(CONTRACT).to_string(), msg: to_json_binary(&fmsg).unwrap(), funds: to_coins(funds) }.into();
            let from = a(*user);
            catch(|| w.app.execute(from, msg).map(|_| ()))
        }
    };
    match r {
        Ok(Ok(())) => Ok(true),
        Ok(Err(_)) => Ok(false),
        Err(p) => Err(p),
    }
}

pub struct BankCheck {
    tier: Tier,
}

impl Check for BankCheck {
    type Case = Case;

    fn new(_id: &str, tier: Tier) -> Self {
        BankCheck { tier }
    }

    fn spec(_id: &str) -> Spec {
        Spec {
            id: "C09",
            level: "exploration",
            rule: "generated: histories of 1-40 bank operations (init_balance, sudo mint, send, burn, send_tokens, and contract-initiated sends/burns with attached funds) over 4 users, 5 never-seen recipients and a contract, 10 denominations (three common ones; sometimes all ten minted at once, in descending order), coin lists of 0-5 coins with repeated denominations, zeros mixed in, all-zero and empty lists, amounts relative to the sender's balance (0, 1, bal-1, bal, bal+1, duplicate split summing to bal or bal+1); after every op every Balance/AllBalances/Supply answer is compared with a reference ledger and failed ops must leave root storage byte-identical; the forwarder contract asks the same queries through its own querier in the middle of the transaction (after the attached funds arrived, and again after its own sends/burns) and must get the ledger of that moment. Non-trivial: the history contains a transfer with a repeated denomination, a self-transfer and a rejected overdraft, with >=2 denominations live; distinct = distinct serialised history Coin lists of nine to fourteen coins (every denomination, some repeated, either order) occur in about one list in twenty",
            assumptions: vec![
                "amounts capped at 2^90 per coin and <= 40 operations, so no balance or supply reaches 2^128 (precondition of the statement)",
                "recipients are valid bech32 addresses so that queries can observe them",
            ],
            floor_quick: 300,
        }
    }

    fn budget(_id: &str, tier: Tier) -> Budget {
        match tier {
            Tier::Quick => Budget { cases: 40_000, max_bytes: 1500 },
            Tier::Thorough => Budget { cases: 600_000, max_bytes: 2500 },
        }
    }

    fn generate(&self, g: &mut Gen) -> Case {
        let max = if self.tier.is_thorough() { 60 } else { 40 };
        let n = 1 + g.below(max);
        let mut led = Ledger::default();
        let mut ops = vec![];
        // most histories start with funded users
        if g.chance(7, 8) {
            for u in 0..N_USERS {
                if g.chance(3, 4) {
                    let coins: Vec<C> = (0..3).filter_map(|d| if g.chance(2, 3) { Some(C(d, g.range(1, 200) as u128)) } else { None }).collect();
                    let op = Op::Mint(u, coins);
                    let _ = led.apply(&op);
                    ops.push(op);
                }
            }
        }
        for _ in 0..n {
            if g.exhausted() {
                break;
            }
            let op = gen_op(g, &led);
            let _ = led.apply(&op);
            ops.push(op);
        }
        Case { ops }
    }

    fn execute(&self, case: &Case, cx: &mut Cx) -> Result<(), Failure> {
        let mut w = setup();
        let mut led = Ledger::default();
        let (mut dup_send, mut self_send, mut overdraft) = (false, false, false);
        check_queries(&w, &led, 0)?;
        for (i, op) in case.ops.iter().enumerate() {
            let step = i + 1;
            let before = scan(w.app.storage());
            // ledgers the contract must see from inside the transaction: after the attached funds
            // arrived, and (probe) after its own sends / burns
            let mut expect = vec![];
            if let Op::ViaContract { user, funds, .. } = op {
                let mut l = led.clone();
                if funds.is_empty() || l.send(*user, CONTRACT, funds).is_ok() {
                    expect.push(l);
                    let mut done = led.clone();
                    if done.apply(op).is_ok() {
                        expect.push(done);
                    }
                }
            }
            let n_expect = expect.len();
            PROBE.with(|p| *p.borrow_mut() = (w.addrs.clone(), expect, 0, None));
            let want = led.apply(op).is_ok();
            let got = match run_op(&mut w, op) {
                Ok(b) => b,
                Err(p) => fail!("C09:panic", "op {} {:?} panicked: {}", step, op, p),
            };
            let (seen, probe_fail) = PROBE.with(|p| {
                let mut p = p.borrow_mut();
                (p.2, p.3.take())
            });
            if let Some(f) = probe_fail {
                return Err(f);
            }
            if seen > 0 {
                cx.label("ledger:observed-inside-transaction");
            }
            if seen >= 2 && n_expect >= 2 {
                cx.label("ledger:observed-after-own-sends");
            }
            if got != want {
                let sig = if got { "C09:invalid-operation-accepted" } else { "C09:valid-operation-rejected" };
                fail!(sig, "op {} {:?}: simulator says {}, reference ledger says {}", step, op, if got { "Ok" } else { "Err" }, if want { "Ok" } else { "Err" });
            }
            if !got {
                let after = scan(w.app.storage());
                if let Some(d) = diff_scans(&before, &after) {
                    fail!("C09:failed-op-changed-state", "op {} {:?} failed but storage changed: {}", step, op, d);
                }
                cx.label("op:rejected");
            } else {
                cx.label("op:accepted");
            }
            check_queries(&w, &led, step)?;
            // classification
            let (coins, from, to): (&[C], Option<Acct>, Option<Acct>) = match op {
                Op::Send(f, t, c) | Op::SendTokens(f, t, c) => (c, Some(*f), Some(*t)),
                Op::Burn(f, c) => (c, Some(*f), None),
                Op::ViaContract { action: Fwd::Send(t, c), .. } => (c, Some(CONTRACT), Some(*t)),
                Op::ViaContract { user, funds, .. } => (funds, Some(*user), Some(CONTRACT)),
                Op::Mint(_, c) | Op::Init(_, c) => (c, None, None),
            };
            let mut seen = BTreeSet::new();
            let has_dup = coins.iter().any(|c| c.1 > 0 && !seen.insert(c.0));
            if has_dup && from.is_some() {
                dup_send = true;
                cx.label("coins:repeated-denomination");
            }
            if from.is_some() && from == to {
                self_send = true;
                cx.label("transfer:self");
            }
            if !got && from.is_some() && Ledger::positive(coins) {
                overdraft = true;
                cx.label("rejected:overdraft");
            }
            if coins.iter().any(|c| c.1 == 0) {
                cx.label("coins:contains-zero");
            }
            if matches!(op, Op::ViaContract { .. }) {
                cx.label("op:via-contract");
            }
        }
        let live = (0..3).filter(|d| led.supply(*d) > 0).count();
        if dup_send && self_send && overdraft && live >= 2 {
            cx.mark_nontrivial();
        }
        Ok(())
    }

    fn shrink(&self, case: &Case) -> Vec<Case> {
        let mut out = vec![];
        let n = case.ops.len();
        if n >= 4 {
            out.push(Case { ops: case.ops[..n / 2].to_vec() });
            out.push(Case { ops: case.ops[n / 2..].to_vec() });
        }
        for i in 0..n {
            let mut c = case.clone();
            c.ops.remove(i);
            out.push(c);
        }
        // simplify coin lists / contract actions
        for i in 0..n {
            let mut c = case.clone();
            let changed = match &mut c.ops[i] {
                Op::Init(_, cs) | Op::Mint(_, cs) | Op::Send(_, _, cs) | Op::Burn(_, cs) | Op::SendTokens(_, _, cs) => {
                    if cs.len() > 1 {
                        cs.pop();
                        true
                    } else {
                        false
                    }
                }
                Op::ViaContract { funds, action, probe, .. } => {
                    if *probe {
                        *probe = false;
                        true
                    } else if !funds.is_empty() && !matches!(action, Fwd::Nothing) {
                        *action = Fwd::Nothing;
                        true
                    } else if let Fwd::Send2(t1, c1, _, _) = action.clone() {
                        *action = Fwd::Send(t1, c1);
                        true
                    } else {
                        false
                    }
                }
            };
            if changed {
                out.push(c);
            }
        }
        out
    }
}
