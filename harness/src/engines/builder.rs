//! C20 — builders keep every configured component regardless of call order.
//!
//! AppBuilder: arbitrary step sequences (with repetition) are applied through a polymorphically
//! recursive generic driver (the builder is type-state; 2^7 instantiations), the built App is
//! observed slot by slot (router fields, behaviour of a message/query of each kind, api, storage,
//! block, init function) and compared with a "last write wins" reference; the same final
//! assignment in canonical order must give the identical observation record (metamorphic).
//! ContractWrapper: any sequence of with_sudo/_reply/_migrate(_empty)/with_checksum.

use crate::driver::{Budget, Check, Cx, Failure, Spec, Tier};
use crate::gen::Gen;
use crate::util::catch;
use crate::{ensure, fail};
use cosmwasm_std::testing::{message_info, mock_dependencies, mock_env, MockApi, MockStorage};
use cosmwasm_std::{
    to_json_binary, to_json_vec, Addr, AnyMsg, Api, BankMsg, BankQuery, Binary, BlockInfo, CanonicalAddr, Checksum, CosmosMsg, CustomMsg, CustomQuery, Deps, DepsMut, DistributionMsg, Empty, Env, Event,
    GovMsg, IbcMsg, IbcQuery, MessageInfo, Querier, QueryRequest, Reply, Response, StakingMsg, StakingQuery, StdResult, Storage, SubMsgResponse, SubMsgResult, Timestamp, VoteOption,
};
use cw_multi_test::error::AnyResult;
use cw_multi_test::{
    AddressGenerator, App, AppBuilder, AppResponse, Bank, BankKeeper, BankSudo, Contract, ContractWrapper, CosmosRouter, Distribution, DistributionKeeper, Executor, FailingModule, Gov, GovFailingModule,
    Ibc, IbcFailingModule, Module, StakeKeeper, Staking, StakingSudo, Stargate, StargateFailing, WasmKeeper,
};
use serde::de::DeserializeOwned;
use serde::{Deserialize, Serialize};
use sha2::{Digest, Sha256};
use std::cell::Cell;
use std::collections::BTreeMap;
use std::fmt::Debug;
use std::marker::PhantomData;

// ---------------------------------------------------------------- case

#[derive(Clone, Copy, Debug, Serialize, Deserialize, PartialEq, Eq, PartialOrd, Ord)]
pub enum Slot {
    Bank,
    Custom,
    Staking,
    Distribution,
    Ibc,
    Gov,
    Stargate,
    Wasm,
    Api,
    Storage,
    Block,
}

pub const ALL_SLOTS: [Slot; 11] = [
    Slot::Bank, Slot::Custom, Slot::Staking, Slot::Distribution, Slot::Ibc, Slot::Gov, Slot::Stargate, Slot::Wasm, Slot::Api, Slot::Storage, Slot::Block,
];

#[derive(Clone, Copy, Debug, Serialize, Deserialize, PartialEq, Eq)]
pub enum WStep {
    Sudo(u8),
    SudoEmpty(u8),
    Reply(u8),
    ReplyEmpty(u8),
    Migrate(u8),
    MigrateEmpty(u8),
    Checksum(u8),
}

#[derive(Clone, Debug, Serialize, Deserialize)]
pub enum Case {
    /// (slot, marker id) steps applied in order to AppBuilder::new()
    Builder(Vec<(Slot, u32)>),
    Wrapper { empty_ctor: bool, steps: Vec<WStep> },
}

// ---------------------------------------------------------------- marker components

pub trait Probe {
    fn probe(&self) -> Option<u32>;
}

pub struct Mark<E, Q, S> {
    id: u32,
    slot: &'static str,
    _p: PhantomData<(E, Q, S)>,
}

impl<E, Q, S> Mark<E, Q, S> {
    fn new(slot: &'static str, id: u32) -> Self {
        Mark { id, slot, _p: PhantomData }
    }
}

impl<E, Q, S> Probe for Mark<E, Q, S> {
    fn probe(&self) -> Option<u32> {
        Some(self.id)
    }
}

fn mark_response(slot: &str, id: u32) -> AppResponse {
    AppResponse {
        events: vec![Event::new("mark").add_attribute("slot", slot).add_attribute("id", id.to_string())],
        data: None,
    }
}

impl<E: Debug, Q: Debug, S: Debug> Module for Mark<E, Q, S> {
    type ExecT = E;
    type QueryT = Q;
    type SudoT = S;

    fn execute<ExecC, QueryC>(&self, _api: &dyn Api, _storage: &mut dyn Storage, _router: &dyn CosmosRouter<ExecC = ExecC, QueryC = QueryC>, _block: &BlockInfo, _sender: Addr, _msg: E) -> AnyResult<AppResponse>
    where
        ExecC: CustomMsg + DeserializeOwned + 'static,
        QueryC: CustomQuery + DeserializeOwned + 'static,
    {
        Ok(mark_response(self.slot, self.id))
    }

    fn query(&self, _api: &dyn Api, _storage: &dyn Storage, _querier: &dyn Querier, _block: &BlockInfo, _request: Q) -> AnyResult<Binary> {
        Ok(to_json_binary(&self.id)?)
    }

    fn sudo<ExecC, QueryC>(&self, _api: &dyn Api, _storage: &mut dyn Storage, _router: &dyn CosmosRouter<ExecC = ExecC, QueryC = QueryC>, _block: &BlockInfo, _msg: S) -> AnyResult<AppResponse>
    where
        ExecC: CustomMsg + DeserializeOwned + 'static,
        QueryC: CustomQuery + DeserializeOwned + 'static,
    {
        Ok(mark_response(self.slot, self.id))
    }
}

type MBank = Mark<BankMsg, BankQuery, BankSudo>;
type MCustom = Mark<Empty, Empty, Empty>;
type MStaking = Mark<StakingMsg, StakingQuery, StakingSudo>;
type MDistr = Mark<DistributionMsg, Empty, Empty>;
type MIbc = Mark<IbcMsg, IbcQuery, Empty>;
type MGov = Mark<GovMsg, Empty, Empty>;

impl Bank for MBank {}
impl Staking for MStaking {}
impl Distribution for MDistr {}
impl Ibc for MIbc {}
impl Gov for MGov {}

pub struct MStargate(u32);
impl Stargate for MStargate {
    fn execute_any<ExecC, QueryC>(&self, _api: &dyn Api, _storage: &mut dyn Storage, _router: &dyn CosmosRouter<ExecC = ExecC, QueryC = QueryC>, _block: &BlockInfo, _sender: Addr, _msg: AnyMsg) -> AnyResult<AppResponse>
    where
        ExecC: CustomMsg + DeserializeOwned + 'static,
        QueryC: CustomQuery + DeserializeOwned + 'static,
    {
        Ok(mark_response("stargate", self.0))
    }
}
impl Probe for MStargate {
    fn probe(&self) -> Option<u32> {
        Some(self.0)
    }
}

macro_rules! default_probe {
    ($($t:ty),*) => { $( impl Probe for $t { fn probe(&self) -> Option<u32> { None } } )* };
}
default_probe!(BankKeeper, FailingModule<Empty, Empty, Empty>, StakeKeeper, DistributionKeeper, IbcFailingModule, GovFailingModule, StargateFailing);

struct MarkGen(u32);
impl AddressGenerator for MarkGen {
    fn contract_address(&self, api: &dyn Api, _storage: &mut dyn Storage, _code_id: u64, _instance_id: u64) -> AnyResult<Addr> {
        Ok(api.addr_humanize(&markgen_canonical(self.0))?)
    }
}

struct MarkCk(u32);
impl cw_multi_test::ChecksumGenerator for MarkCk {
    fn checksum(&self, _creator: &Addr, _code_id: u64) -> cosmwasm_std::Checksum {
        markck(self.0)
    }
}

fn markck(id: u32) -> cosmwasm_std::Checksum {
    cosmwasm_std::Checksum::generate(format!("markck-{}", id).as_bytes())
}

fn markgen_canonical(id: u32) -> CanonicalAddr {
    Sha256::digest(format!("markgen-{}", id).as_bytes()).to_vec().into()
}

use crate::util::classic_canonical;

fn api_prefix(id: u32) -> &'static str {
    const P: [&str; 8] = ["pfxa", "pfxb", "pfxc", "pfxd", "pfxe", "pfxf", "pfxg", "pfxh"];
    P[(id as usize) % 8]
}

/// the block supplied by builder step `id`; heights and times include the boundary values
/// (0, u64::MAX), the chain id carries the step's identity
fn marked_block(id: u32) -> BlockInfo {
    let height = [id as u64, 0, u64::MAX, 1][(id % 4) as usize];
    let time = match (id / 4) % 3 {
        0 => Timestamp::from_seconds(1_000_000 + id as u64),
        1 => Timestamp::from_nanos(0),
        _ => Timestamp::from_nanos(u64::MAX),
    };
    // every fifth step supplies a block whose chain id is blank: its identity is then carried by the time
    if id % 5 == 4 {
        return BlockInfo { height, time: Timestamp::from_seconds(2_000_000 + id as u64), chain_id: if id % 2 == 0 { String::new() } else { "  ".to_string() } };
    }
    BlockInfo { height, time, chain_id: format!("chain-{}", id) }
}

fn marked_block_id(blk: &BlockInfo) -> Option<u32> {
    let id = if blk.chain_id.trim().is_empty() { blk.time.seconds().checked_sub(2_000_000).map(|x| x as u32) } else { blk.chain_id.strip_prefix("chain-").and_then(|n| n.parse::<u32>().ok()) };
    id.filter(|id| *blk == marked_block(*id))
}

// ---------------------------------------------------------------- observation

#[derive(Clone, Debug, Default, PartialEq, Eq, Serialize)]
pub struct Obs {
    /// slot -> marker seen by looking at the router field / api / storage / block
    field: BTreeMap<String, Option<u32>>,
    /// slot -> marker seen in the behaviour of a message of that kind (None = default behaviour)
    exec: BTreeMap<String, Option<u32>>,
    /// slot -> marker seen in the answer to a query of that kind
    query: BTreeMap<String, Option<u32>>,
    init_calls: u32,
    init_saw_marker: Option<u32>,
    init_write_present: bool,
    /// a key of the supplied storage that the init function overwrites and then removes is gone
    init_removed_gone: bool,
    /// the last of many writes of the init function to a few keys is what the App's storage holds
    init_bulk_last_wins: bool,
    block_is_default: bool,
}

fn exec_marker(r: AnyResult<AppResponse>) -> Option<u32> {
    let r = r.ok()?;
    let ev = r.events.iter().find(|e| e.ty == "mark")?;
    ev.attributes.iter().find(|a| a.key == "id")?.value.parse().ok()
}

/// every function of the Api, called with fixed (garbage) inputs: Ok/Err per call
fn api_fingerprint(api: &dyn Api) -> String {
    let f = |ok: bool| if ok { 'o' } else { 'e' };
    let (h, sig, pk) = ([7u8; 32], [9u8; 64], [2u8; 33]);
    let mut s = String::new();
    s.push(f(api.addr_validate("not-an-address").is_ok()));
    s.push(f(api.addr_canonicalize("not-an-address").is_ok()));
    s.push(f(api.addr_humanize(&CanonicalAddr::from(vec![1u8; 20])).is_ok()));
    s.push(f(api.secp256k1_verify(&h, &sig, &pk).is_ok()));
    s.push(f(api.secp256k1_recover_pubkey(&h, &sig, 0).is_ok()));
    s.push(f(api.secp256r1_verify(&h, &sig, &pk).is_ok()));
    s.push(f(api.secp256r1_recover_pubkey(&h, &sig, 0).is_ok()));
    s.push(f(api.ed25519_verify(&h, &sig, &h).is_ok()));
    s.push(f(api.ed25519_batch_verify(&[&h[..]], &[&sig[..]], &[&h[..]]).is_ok()));
    s.push(f(api.bls12_381_aggregate_g1(&[0u8; 48]).is_ok()));
    s.push(f(api.bls12_381_aggregate_g2(&[0u8; 96]).is_ok()));
    s.push(f(api.bls12_381_pairing_equality(&[0u8; 48], &[0u8; 96], &[0u8; 48], &[0u8; 96]).is_ok()));
    s.push(f(api.bls12_381_hash_to_g1(cosmwasm_std::HashFunction::Sha256, b"m", b"d").is_ok()));
    s.push(f(api.bls12_381_hash_to_g2(cosmwasm_std::HashFunction::Sha256, b"m", b"d").is_ok()));
    api.debug("probe");
    s
}

/// the probe contract reports what the Api it is handed answers (the builder's Api, whole)
fn noop_exec(d: DepsMut, _e: Env, _i: MessageInfo, _m: Empty) -> StdResult<Response> {
    Ok(Response::new().add_attribute("api", api_fingerprint(d.api)))
}
fn noop_query(_d: Deps, _e: Env, _m: Empty) -> StdResult<Binary> {
    to_json_binary(&Empty {})
}

#[allow(clippy::type_complexity)]
fn observe<B, C, S, D, I, G, T>(b: AppBuilder<B, MockApi, MockStorage, C, WasmKeeper<Empty, Empty>, S, D, I, G, T>) -> Obs
where
    B: Bank + Probe,
    C: Module<ExecT = Empty, QueryT = Empty> + Probe,
    S: Staking + Probe,
    D: Distribution + Probe,
    I: Ibc + Probe,
    G: Gov + Probe,
    T: Stargate + Probe,
{
    let mut o = Obs::default();
    let calls = Cell::new(0u32);
    let saw: Cell<Option<u32>> = Cell::new(None);
    let mut app: App<B, MockApi, MockStorage, C, WasmKeeper<Empty, Empty>, S, D, I, G, T> = b.build(|_router, _api, storage| {
        calls.set(calls.get() + 1);
        saw.set(storage.get(b"marker").and_then(|v| String::from_utf8(v).ok()).and_then(|s| s.parse().ok()));
        // what an initialisation function may do: write a key twice, remove and re-create a key the
        // supplied storage already held
        storage.set(b"init", b"0");
        storage.set(b"init", b"1");
        if let Some(m) = storage.get(b"marker") {
            storage.remove(b"marker");
            storage.set(b"marker", &m);
        }
        // ... overwrite and then remove another one, and write a handful of keys a few hundred times
        if storage.get(b"old").is_some() {
            storage.set(b"old", b"rewritten");
            storage.remove(b"old");
        }
        for i in 0..300u32 {
            storage.set(format!("bulk{}", i % 7).as_bytes(), i.to_string().as_bytes());
        }
    });
    o.init_calls = calls.get();
    o.init_saw_marker = saw.get();
    o.init_write_present = app.storage().get(b"init") == Some(b"1".to_vec());
    o.init_removed_gone = app.storage().get(b"old").is_none();
    o.init_bulk_last_wins = (0..7u32).all(|k| app.storage().get(format!("bulk{}", k).as_bytes()) == Some((293 + (k + 7 - 293 % 7) % 7).to_string().into_bytes()));

    // fields
    o.field.insert("bank".into(), app.router().bank.probe());
    o.field.insert("custom".into(), app.router().custom.probe());
    o.field.insert("staking".into(), app.router().staking.probe());
    o.field.insert("distribution".into(), app.router().distribution.probe());
    o.field.insert("ibc".into(), app.router().ibc.probe());
    o.field.insert("gov".into(), app.router().gov.probe());
    o.field.insert("stargate".into(), app.router().stargate.probe());
    let made = app.api().addr_make("probe");
    let pfx = made.as_str().split('1').next().unwrap_or("").to_string();
    o.field.insert("api".into(), (0..8u32).find(|i| api_prefix(*i) == pfx));
    if pfx != "cosmwasm" && !pfx.starts_with("pfx") {
        o.field.insert("api-unknown-prefix".into(), Some(0));
    }
    o.field.insert("storage".into(), app.storage().get(b"marker").and_then(|v| String::from_utf8(v).ok()).and_then(|s| s.parse().ok()));
    let blk = app.block_info();
    o.block_is_default = blk == mock_env().block;
    o.field.insert(
        "block".into(),
        if o.block_is_default {
            None
        } else if let Some(id) = marked_block_id(&blk) {
            Some(id)
        } else {
            Some(u32::MAX)
        },
    );

    // behaviour
    let sender = app.api().addr_make("sender");
    let other = app.api().addr_make("other");
    let code = app.store_code(Box::new(ContractWrapper::new(noop_exec, noop_exec, noop_query)));
    let inst = app.instantiate_contract(code, sender.clone(), &Empty {}, &[], "probe", None);
    if let Ok(addr) = &inst {
        // the Api a contract is handed answers like the Api the App was built with
        let seen = app.execute_contract(sender.clone(), addr.clone(), &Empty {}, &[]).ok().and_then(|r| r.events.iter().flat_map(|e| e.attributes.iter()).find(|a| a.key == "api").map(|a| a.value.clone()));
        let direct = api_fingerprint(app.api());
        o.field.insert("api-in-contract".into(), if seen.as_deref() == Some(direct.as_str()) { None } else { Some(u32::MAX) });
    }
    let wasm_marker = match &inst {
        Ok(addr) => {
            let default_addr = app.api().addr_humanize(&classic_canonical(code, 0)).ok();
            if Some(addr) == default_addr.as_ref() {
                None
            } else {
                (0..4096u32).find(|i| app.api().addr_humanize(&markgen_canonical(*i)).ok().as_ref() == Some(addr)).or(Some(u32::MAX))
            }
        }
        Err(_) => Some(u32::MAX - 1),
    };
    o.exec.insert("wasm".into(), wasm_marker);
    // the checksum generator supplied together with the address generator
    let ck_marker = match app.wrap().query_wasm_code_info(code) {
        Ok(info) => {
            if wasm_marker.is_none() {
                None // default keeper: default checksum, nothing supplied
            } else {
                (0..4096u32).find(|i| markck(*i) == info.checksum).or(Some(u32::MAX))
            }
        }
        Err(_) => Some(u32::MAX - 1),
    };
    o.query.insert("wasm".into(), ck_marker);
    o.exec.insert("bank".into(), exec_marker(app.execute(sender.clone(), BankMsg::Send { to_address: other.to_string(), amount: vec![cosmwasm_std::coin(1, "x")] }.into())));
    o.exec.insert("custom".into(), exec_marker(app.execute(sender.clone(), CosmosMsg::Custom(Empty {}))));
    o.exec.insert("staking".into(), exec_marker(app.execute(sender.clone(), StakingMsg::Delegate { validator: "v".into(), amount: cosmwasm_std::coin(1, "TOKEN") }.into())));
    o.exec.insert("distribution".into(), exec_marker(app.execute(sender.clone(), DistributionMsg::SetWithdrawAddress { address: other.to_string() }.into())));
    o.exec.insert("ibc".into(), exec_marker(app.execute(sender.clone(), IbcMsg::CloseChannel { channel_id: "c".into() }.into())));
    o.exec.insert("gov".into(), exec_marker(app.execute(sender.clone(), GovMsg::Vote { proposal_id: 1, option: VoteOption::Yes }.into())));
    o.exec.insert("stargate".into(), exec_marker(app.execute(sender.clone(), CosmosMsg::Any(AnyMsg { type_url: "/x".into(), value: Binary::default() }))));
    // queries (raw, so that marker answers and default answers are both parseable)
    let q = |app: &App<B, MockApi, MockStorage, C, WasmKeeper<Empty, Empty>, S, D, I, G, T>, req: QueryRequest<Empty>| -> Option<u32> {
        let raw = to_json_vec(&req).ok()?;
        match app.raw_query(&raw) {
            cosmwasm_std::SystemResult::Ok(cosmwasm_std::ContractResult::Ok(bin)) => serde_json::from_slice::<u32>(bin.as_slice()).ok(),
            _ => None,
        }
    };
    o.query.insert("bank".into(), q(&app, QueryRequest::Bank(BankQuery::Balance { address: sender.to_string(), denom: "x".into() })));
    o.query.insert("custom".into(), q(&app, QueryRequest::Custom(Empty {})));
    o.query.insert("staking".into(), q(&app, QueryRequest::Staking(StakingQuery::BondedDenom {})));
    o.query.insert("ibc".into(), q(&app, QueryRequest::Ibc(IbcQuery::ListChannels { port_id: None })));
    o
}

macro_rules! go_impl {
    () => {
        #[allow(clippy::type_complexity)]
        fn go<B, C, S, D, I, G, T>(b: AppBuilder<B, MockApi, MockStorage, C, WasmKeeper<Empty, Empty>, S, D, I, G, T>, steps: &[(Slot, u32)]) -> Obs
        where
            B: Bank + Probe,
            C: Module<ExecT = Empty, QueryT = Empty> + Probe,
            S: Staking + Probe,
            D: Distribution + Probe,
            I: Ibc + Probe,
            G: Gov + Probe,
            T: Stargate + Probe,
        {
            let Some(((slot, id), rest)) = steps.split_first() else {
                return observe(b);
            };
            let id = *id;
            match slot {
                Slot::Bank => go(b.with_bank(MBank::new("bank", id)), rest),
                Slot::Custom => go(b.with_custom(MCustom::new("custom", id)), rest),
                Slot::Staking => go(b.with_staking(MStaking::new("staking", id)), rest),
                Slot::Distribution => go(b.with_distribution(MDistr::new("distribution", id)), rest),
                Slot::Ibc => go(b.with_ibc(MIbc::new("ibc", id)), rest),
                Slot::Gov => go(b.with_gov(MGov::new("gov", id)), rest),
                Slot::Stargate => go(b.with_stargate(MStargate(id)), rest),
                // the keeper itself is assembled from two builder steps, in either order
                Slot::Wasm if id % 2 == 0 => go(b.with_wasm(WasmKeeper::new().with_address_generator(MarkGen(id)).with_checksum_generator(MarkCk(id))), rest),
                Slot::Wasm => go(b.with_wasm(WasmKeeper::new().with_checksum_generator(MarkCk(id)).with_address_generator(MarkGen(id))), rest),
                Slot::Api => go(b.with_api(MockApi::default().with_prefix(api_prefix(id))), rest),
                Slot::Storage => {
                    let mut st = MockStorage::new();
                    st.set(b"marker", id.to_string().as_bytes());
                    st.set(b"old", b"supplied");
                    go(b.with_storage(st), rest)
                }
                Slot::Block => go(b.with_block(marked_block(id)), rest),
            }
        }
    };
}
go_impl!();

fn expected(steps: &[(Slot, u32)]) -> BTreeMap<Slot, u32> {
    let mut m = BTreeMap::new();
    for (s, id) in steps {
        m.insert(*s, *id);
    }
    m
}

fn slot_name(s: Slot) -> &'static str {
    match s {
        Slot::Bank => "bank",
        Slot::Custom => "custom",
        Slot::Staking => "staking",
        Slot::Distribution => "distribution",
        Slot::Ibc => "ibc",
        Slot::Gov => "gov",
        Slot::Stargate => "stargate",
        Slot::Wasm => "wasm",
        Slot::Api => "api",
        Slot::Storage => "storage",
        Slot::Block => "block",
    }
}

fn check_builder(steps: &[(Slot, u32)], cx: &mut Cx) -> Result<(), Failure> {
    let want = expected(steps);
    if steps.is_empty() {
        // every way of starting a builder gives the same defaults ("defaults for the rest")
        let d = mock_env().block;
        let blocks = [
            ("AppBuilder::new()", AppBuilder::new().build(cw_multi_test::no_init).block_info()),
            ("AppBuilder::default()", AppBuilder::default().build(cw_multi_test::no_init).block_info()),
            ("BasicAppBuilder::new_custom()", cw_multi_test::BasicAppBuilder::<Empty, Empty>::new_custom().build(cw_multi_test::no_init).block_info()),
            ("App::default()", App::default().block_info()),
            ("App::new(..)", App::new(cw_multi_test::no_init).block_info()),
            ("custom_app(..)", cw_multi_test::custom_app::<Empty, Empty, _>(cw_multi_test::no_init).block_info()),
        ];
        for (how, b) in blocks {
            ensure!(b == d, "C20:builder-default-block", "{} starts with block {:?}, the other constructors with {:?}", how, b, d);
        }
    }
    let obs = match catch(|| go(AppBuilder::new(), steps)) {
        Ok(o) => o,
        Err(p) => fail!("C20:builder-panics", "building with steps {:?} panicked: {}", steps, p),
    };
    ensure!(obs.init_calls == 1, "C20:init-not-once", "init function ran {} times for steps {:?}", obs.init_calls, steps);
    ensure!(obs.init_removed_gone, "C20:init-write-lost", "a key of the supplied storage that the init function overwrote and then removed is still in the App's storage (steps {:?})", steps);
    ensure!(obs.init_bulk_last_wins, "C20:init-write-lost", "after 300 writes of the init function to seven keys the App's storage does not hold the last value of each (steps {:?})", steps);
    ensure!(obs.init_write_present, "C20:init-write-lost", "the key written by the init function is not in the App's storage (steps {:?})", steps);
    ensure!(
        obs.init_saw_marker == want.get(&Slot::Storage).copied(),
        "C20:init-saw-other-storage",
        "init function saw storage marker {:?}, supplied {:?} (steps {:?})",
        obs.init_saw_marker, want.get(&Slot::Storage), steps
    );
    for s in ALL_SLOTS {
        let name = slot_name(s);
        let w = want.get(&s).copied();
        if let Some(f) = obs.field.get(name) {
            ensure!(
                *f == match s {
                    Slot::Api => w.map(|i| i % 8),
                    _ => w,
                },
                &format!("C20:builder-lost-component:{}", name),
                "slot {} shows marker {:?} but the last supplied one is {:?} (steps {:?})",
                name, f, w, steps
            );
        }
        if let Some(e) = obs.exec.get(name) {
            ensure!(
                *e == w,
                &format!("C20:builder-behaviour:{}", name),
                "a {} message was answered by marker {:?} but the last supplied component is {:?} (steps {:?})",
                name, e, w, steps
            );
        }
        if let Some(q) = obs.query.get(name) {
            ensure!(
                *q == w,
                &format!("C20:builder-behaviour:{}", name),
                "a {} query was answered by marker {:?} but the last supplied component is {:?} (steps {:?})",
                name, q, w, steps
            );
        }
    }
    ensure!(!obs.field.contains_key("api-unknown-prefix"), "C20:builder-lost-component:api", "api uses an unknown prefix");
    ensure!(obs.field.get("api-in-contract").copied().flatten().is_none(), "C20:builder-lost-component:api", "the Api handed to a contract does not answer like the Api the App was built with (steps {:?})", steps);
    // metamorphic: canonical order of the same final assignment
    let canon: Vec<(Slot, u32)> = want.iter().map(|(s, i)| (*s, *i)).collect();
    let mut rev = canon.clone();
    rev.reverse();
    for alt in [canon, rev] {
        let obs2 = match catch(|| go(AppBuilder::new(), &alt)) {
            Ok(o) => o,
            Err(p) => fail!("C20:builder-panics", "building with steps {:?} panicked: {}", alt, p),
        };
        ensure!(
            obs2 == obs,
            "C20:order-dependent",
            "steps {:?} and {:?} assign the same components but the built Apps differ:\n{:?}\n{:?}",
            steps, alt, obs, obs2
        );
    }
    let distinct: std::collections::BTreeSet<Slot> = steps.iter().map(|s| s.0).collect();
    let repeated = distinct.len() < steps.len();
    if distinct.len() >= 3 || repeated {
        cx.mark_nontrivial();
    }
    cx.label(&format!("builder:steps:{}", steps.len().min(15)));
    if repeated {
        cx.label("builder:repeated-step");
    }
    Ok(())
}

// ---------------------------------------------------------------- contract wrapper

macro_rules! perm_fns {
    ($($name:ident => $tag:expr),*) => {
        $( fn $name(_d: DepsMut, _e: Env, _m: Empty) -> AnyResult<Response> { Ok(with_data(Response::new().add_attribute("fn", $tag), $tag)) } )*
    };
}
perm_fns!(sudo0 => "sudo-0", sudo1 => "sudo-1", sudo2 => "sudo-2", mig0 => "migrate-0", mig1 => "migrate-1", mig2 => "migrate-2");
macro_rules! reply_fns {
    ($($name:ident => $tag:expr),*) => {
        $( fn $name(_d: DepsMut, _e: Env, _m: Reply) -> AnyResult<Response> { Ok(with_data(Response::new().add_attribute("fn", $tag), $tag)) } )*
    };
}
reply_fns!(rep0 => "reply-0", rep1 => "reply-1", rep2 => "reply-2");

/// the data an entry point returns is part of what the wrapper must hand through unchanged:
/// present-but-empty for tags ending in 0 and for execute, bytes for tags ending in 1 and for
/// instantiate, none otherwise
fn expected_data(tag: &str) -> Option<Vec<u8>> {
    match tag {
        "execute" => Some(vec![]),
        "instantiate" => Some(b"i".to_vec()),
        t if t.ends_with('0') => Some(vec![]),
        t if t.ends_with('1') => Some(b"d1".to_vec()),
        _ => None,
    }
}
fn with_data(r: Response, tag: &str) -> Response {
    match expected_data(tag) {
        Some(d) => r.set_data(d),
        None => r,
    }
}
fn data_intact(r: &AnyResult<Response>) -> bool {
    match r {
        Ok(resp) => match resp.attributes.iter().find(|a| a.key == "fn") {
            Some(a) => resp.data.as_ref().map(|d| d.to_vec()) == expected_data(&a.value),
            None => true,
        },
        Err(_) => true,
    }
}
fn w_exec(_d: DepsMut, _e: Env, _i: MessageInfo, _m: Empty) -> AnyResult<Response> {
    Ok(with_data(Response::new().add_attribute("fn", "execute"), "execute"))
}
fn w_inst(_d: DepsMut, _e: Env, _i: MessageInfo, _m: Empty) -> AnyResult<Response> {
    Ok(with_data(Response::new().add_attribute("fn", "instantiate"), "instantiate"))
}
fn w_query(_d: Deps, _e: Env, _m: Empty) -> AnyResult<Binary> {
    Ok(to_json_binary("query")?)
}

fn checksum_of(k: u8) -> Checksum {
    Checksum::generate(&[k, 0xC5])
}

type W = ContractWrapper<Empty, Empty, Empty, anyhow::Error, anyhow::Error, anyhow::Error>;

fn build_wrapper(empty_ctor: bool, steps: &[WStep]) -> W {
    let mut w: W = if empty_ctor { ContractWrapper::new_with_empty(w_exec, w_inst, w_query) } else { ContractWrapper::new(w_exec, w_inst, w_query) };
    let sudo = [sudo0, sudo1, sudo2];
    let mig = [mig0, mig1, mig2];
    let rep = [rep0, rep1, rep2];
    for s in steps {
        w = match *s {
            WStep::Sudo(k) => w.with_sudo(sudo[k as usize % 3]),
            WStep::SudoEmpty(k) => w.with_sudo_empty(sudo[k as usize % 3]),
            WStep::Reply(k) => w.with_reply(rep[k as usize % 3]),
            WStep::ReplyEmpty(k) => w.with_reply_empty(rep[k as usize % 3]),
            WStep::Migrate(k) => w.with_migrate(mig[k as usize % 3]),
            WStep::MigrateEmpty(k) => w.with_migrate_empty(mig[k as usize % 3]),
            WStep::Checksum(k) => w.with_checksum(checksum_of(k)),
        };
    }
    w
}

fn fn_tag(r: AnyResult<Response>) -> Option<String> {
    let r = r.ok()?;
    r.attributes.iter().find(|a| a.key == "fn").map(|a| a.value.clone())
}

fn check_wrapper(empty_ctor: bool, steps: &[WStep], cx: &mut Cx) -> Result<(), Failure> {
    let w = match catch(|| build_wrapper(empty_ctor, steps)) {
        Ok(w) => w,
        Err(p) => fail!("C20:wrapper-panics", "building the wrapper panicked: {}", p),
    };
    let c: &dyn Contract<Empty> = &w;
    let (mut want_sudo, mut want_reply, mut want_mig, mut want_ck): (Option<String>, Option<String>, Option<String>, Option<Checksum>) = (None, None, None, None);
    for s in steps {
        match *s {
            WStep::Sudo(k) | WStep::SudoEmpty(k) => want_sudo = Some(format!("sudo-{}", k % 3)),
            WStep::Reply(k) | WStep::ReplyEmpty(k) => want_reply = Some(format!("reply-{}", k % 3)),
            WStep::Migrate(k) | WStep::MigrateEmpty(k) => want_mig = Some(format!("migrate-{}", k % 3)),
            WStep::Checksum(k) => want_ck = Some(checksum_of(k)),
        }
    }
    let got_ck = c.checksum();
    ensure!(
        got_ck == want_ck,
        if want_ck.is_some() && got_ck.is_none() { "C20:wrapper-drops-checksum" } else { "C20:wrapper-wrong-checksum" },
        "wrapper built with {:?} reports checksum {:?}, the last supplied one is {:?}",
        steps, got_ck.map(|c| c.to_hex()), want_ck.map(|c| c.to_hex())
    );
    let msg = b"{}".to_vec();
    let info = message_info(&Addr::unchecked("sender"), &[]);
    let mut deps = mock_dependencies();
    let e = { let r = c.execute(deps.as_mut(), mock_env(), info.clone(), msg.clone()); ensure!(data_intact(&r), "C20:wrapper-data-altered", "the execute entry point's response data was altered by the wrapper (steps {:?}): {:?}", steps, r.as_ref().ok().map(|x| x.data.clone())); fn_tag(r) };
    ensure!(e.as_deref() == Some("execute"), "C20:wrapper-entry-point:execute", "execute dispatches to {:?} after {:?}", e, steps);
    let i = { let r = c.instantiate(deps.as_mut(), mock_env(), info, msg.clone()); ensure!(data_intact(&r), "C20:wrapper-data-altered", "the instantiate entry point's response data was altered by the wrapper (steps {:?}): {:?}", steps, r.as_ref().ok().map(|x| x.data.clone())); fn_tag(r) };
    ensure!(i.as_deref() == Some("instantiate"), "C20:wrapper-entry-point:instantiate", "instantiate dispatches to {:?} after {:?}", i, steps);
    let q = c.query(deps.as_ref(), mock_env(), msg.clone()).ok();
    ensure!(q == Some(to_json_binary("query").unwrap()), "C20:wrapper-entry-point:query", "query answers {:?} after {:?}", q, steps);
    let s = { let r = c.sudo(deps.as_mut(), mock_env(), msg.clone()); ensure!(data_intact(&r), "C20:wrapper-data-altered", "the sudo entry point's response data was altered by the wrapper (steps {:?}): {:?}", steps, r.as_ref().ok().map(|x| x.data.clone())); fn_tag(r) };
    ensure!(s == want_sudo, "C20:wrapper-entry-point:sudo", "sudo dispatches to {:?}, last supplied {:?} (steps {:?})", s, want_sudo, steps);
    let m = { let r = c.migrate(deps.as_mut(), mock_env(), msg.clone()); ensure!(data_intact(&r), "C20:wrapper-data-altered", "the migrate entry point's response data was altered by the wrapper (steps {:?}): {:?}", steps, r.as_ref().ok().map(|x| x.data.clone())); fn_tag(r) };
    ensure!(m == want_mig, "C20:wrapper-entry-point:migrate", "migrate dispatches to {:?}, last supplied {:?} (steps {:?})", m, want_mig, steps);
    #[allow(deprecated)]
    let reply = Reply { id: 1, payload: Binary::default(), gas_used: 0, result: SubMsgResult::Ok(SubMsgResponse { events: vec![], data: None, msg_responses: vec![] }) };
    let r = { let r = c.reply(deps.as_mut(), mock_env(), reply); ensure!(data_intact(&r), "C20:wrapper-data-altered", "the reply entry point's response data was altered by the wrapper (steps {:?}): {:?}", steps, r.as_ref().ok().map(|x| x.data.clone())); fn_tag(r) };
    ensure!(r == want_reply, "C20:wrapper-entry-point:reply", "reply dispatches to {:?}, last supplied {:?} (steps {:?})", r, want_reply, steps);
    // the same through an App: the wrapper is stored next to other wrappers that carry the same
    // checksum but no optional entry points (one of them a duplicated code); every supplied entry point must still be reachable
    // layout 0: [decoy, wrapper]; layout 1: [decoy, duplicate of the decoy, wrapper, another decoy];
    for layout in 0..4 {
        let mut app = App::default();
        let owner = app.api().addr_make("owner");
        let mk_decoy = || {
            let mut decoy: W = ContractWrapper::new(w_exec, w_inst, w_query);
            if let Some(ck) = want_ck {
                decoy = decoy.with_checksum(ck);
            }
            decoy
        };
        let decoy_id = app.store_code(Box::new(mk_decoy()));
        if layout == 1 {
            ensure!(app.duplicate_code(decoy_id).is_ok(), "harness:duplicate-code", "duplicating a stored code failed");
        }
        // layout 2: stored under an explicitly chosen id; layout 3: stored on behalf of another creator
        let id = match layout {
            2 => match app.store_code_with_id(owner.clone(), 77, Box::new(build_wrapper(empty_ctor, steps))) {
                Ok(id) => id,
                Err(e) => fail!("C20:wrapper-in-app:store", "store_code_with_id(77) failed on an App with one code: {}", e),
            },
            3 => app.store_code_with_creator(owner.clone(), Box::new(build_wrapper(empty_ctor, steps))),
            _ => app.store_code(Box::new(build_wrapper(empty_ctor, steps))),
        };
        if layout == 1 {
            let _ = app.store_code(Box::new(mk_decoy()));
        }
        let addr = match app.instantiate_contract(id, owner.clone(), &Empty {}, &[], "w", Some(owner.to_string())) {
            Ok(a) => a,
            Err(e) => fail!("C20:wrapper-in-app:instantiate", "wrapper built with {:?} cannot be instantiated in an App: {}", steps, e),
        };
        let tag_of = |r: AnyResult<AppResponse>| -> Option<String> { r.ok().and_then(|r| r.events.iter().flat_map(|e| e.attributes.iter()).find(|a| a.key == "fn").map(|a| a.value.clone())) };
        let s = tag_of(app.wasm_sudo(addr.clone(), &Empty {}));
        ensure!(s == want_sudo, "C20:wrapper-in-app:sudo", "stored in an App next to a wrapper with the same checksum, sudo dispatches to {:?}, last supplied {:?} (steps {:?})", s, want_sudo, steps);
        let m = tag_of(app.migrate_contract(owner.clone(), addr.clone(), &Empty {}, id));
        ensure!(m == want_mig, "C20:wrapper-in-app:migrate", "stored in an App next to a wrapper with the same checksum, migrate dispatches to {:?}, last supplied {:?} (steps {:?})", m, want_mig, steps);
        let e = tag_of(app.execute_contract(owner, addr, &Empty {}, &[]));
        ensure!(e.as_deref() == Some("execute"), "C20:wrapper-in-app:execute", "execute dispatches to {:?}", e);
        if let Some(ck) = want_ck {
            let info = app.wrap().query_wasm_code_info(id);
            ensure!(matches!(&info, Ok(i) if i.checksum == ck), "C20:wrapper-in-app:checksum", "CodeInfo of the stored wrapper reports {:?}, supplied {}", info.map(|i| i.checksum.to_hex()), ck.to_hex());
        }
    }
    let kinds: std::collections::BTreeSet<u8> = steps
        .iter()
        .map(|s| match s {
            WStep::Sudo(_) | WStep::SudoEmpty(_) => 0,
            WStep::Reply(_) | WStep::ReplyEmpty(_) => 1,
            WStep::Migrate(_) | WStep::MigrateEmpty(_) => 2,
            WStep::Checksum(_) => 3,
        })
        .collect();
    if kinds.len() >= 3 || (kinds.len() >= 2 && steps.len() > kinds.len()) {
        cx.mark_nontrivial();
    }
    cx.label(&format!("wrapper:steps:{}", steps.len()));
    Ok(())
}

// ---------------------------------------------------------------- Check impl

pub struct BuilderCheck {
    tier: Tier,
}

fn gen_wstep(g: &mut Gen) -> WStep {
    let k = g.below(3) as u8;
    match g.below(7) {
        0 => WStep::Checksum(k),
        1 => WStep::Sudo(k),
        2 => WStep::Reply(k),
        3 => WStep::Migrate(k),
        4 => WStep::SudoEmpty(k),
        5 => WStep::ReplyEmpty(k),
        _ => WStep::MigrateEmpty(k),
    }
}

impl Check for BuilderCheck {
    type Case = Case;

    fn new(_id: &str, tier: Tier) -> Self {
        BuilderCheck { tier }
    }

    fn spec(_id: &str) -> Spec {
        Spec {
            id: "C20",
            level: "exploration",
            rule: "generated: AppBuilder step sequences of 0-14 steps over the 11 with_* methods with repetition, each step carrying a fresh marker (typed marker modules for bank/custom/staking/distribution/ibc/gov/stargate, address-generator marker for wasm, bech32 prefix for api, pre-filled key for storage, fields for block), observed through router fields, one message and one query per kind, api, storage, block and the init function, compared with a last-write-wins reference and with the canonical and reversed order of the same final assignment; ContractWrapper sequences of 0-8 with_sudo/_reply/_migrate(_empty)/with_checksum steps from new or new_with_empty, observed through checksum() and by calling all six entry points. All 11x10 ordered builder pairs and all ordered wrapper pairs/triples are enumerated in every run. Non-trivial: >=3 distinct kinds of steps, or a repeated step; distinct = distinct serialised sequence",
            assumptions: vec!["custom marker module uses the Empty message/query types so that the default WasmKeeper stays type-compatible", "wrapper steps use the default T4/E4/E5/T6/E6 types so that the wrapper type is stable across a runtime loop"],
            floor_quick: 500,
        }
    }

    fn budget(_id: &str, tier: Tier) -> Budget {
        match tier {
            Tier::Quick => Budget { cases: 30_000, max_bytes: 64 },
            Tier::Thorough => Budget { cases: 200_000, max_bytes: 64 },
        }
    }

    fn generate(&self, g: &mut Gen) -> Case {
        let _ = self.tier;
        if g.chance(1, 3) {
            let n = g.below(9);
            Case::Wrapper { empty_ctor: g.bool(), steps: (0..n).map(|_| gen_wstep(g)).collect() }
        } else {
            let n = g.below(15);
            Case::Builder((0..n).map(|i| (ALL_SLOTS[g.below(11)], i as u32 + 1)).collect())
        }
    }

    fn execute(&self, case: &Case, cx: &mut Cx) -> Result<(), Failure> {
        match case {
            Case::Builder(steps) => check_builder(steps, cx),
            Case::Wrapper { empty_ctor, steps } => check_wrapper(*empty_ctor, steps, cx),
        }
    }

    fn fixed_cases(&self, _tier: Tier) -> Vec<Case> {
        let mut out = vec![Case::Builder(vec![])];
        for a in ALL_SLOTS {
            out.push(Case::Builder(vec![(a, 1)]));
            for b in ALL_SLOTS {
                out.push(Case::Builder(vec![(a, 1), (b, 2)]));
            }
        }
        let ws = [WStep::Sudo(0), WStep::SudoEmpty(1), WStep::Reply(0), WStep::ReplyEmpty(1), WStep::Migrate(0), WStep::MigrateEmpty(1), WStep::Checksum(2)];
        for ctor in [false, true] {
            out.push(Case::Wrapper { empty_ctor: ctor, steps: vec![] });
            for a in ws {
                out.push(Case::Wrapper { empty_ctor: ctor, steps: vec![a] });
                for b in ws {
                    out.push(Case::Wrapper { empty_ctor: ctor, steps: vec![a, b] });
                    for c in ws {
                        out.push(Case::Wrapper { empty_ctor: ctor, steps: vec![a, b, c] });
                    }
                }
            }
        }
        out
    }

    fn fixed_exhaustive() -> bool {
        true
    }

    fn shrink(&self, case: &Case) -> Vec<Case> {
        let mut out = vec![];
        match case {
            Case::Builder(steps) => {
                for i in 0..steps.len() {
                    let mut s = steps.clone();
                    s.remove(i);
                    out.push(Case::Builder(s));
                }
            }
            Case::Wrapper { empty_ctor, steps } => {
                for i in 0..steps.len() {
                    let mut s = steps.clone();
                    s.remove(i);
                    out.push(Case::Wrapper { empty_ctor: *empty_ctor, steps: s });
                }
                if *empty_ctor {
                    out.push(Case::Wrapper { empty_ctor: false, steps: steps.clone() });
                }
            }
        }
        out
    }
}
