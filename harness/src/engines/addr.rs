//! C18 — address helpers are total, consistent and reject foreign or malformed input.
//!
//! Round-trip + differential: every generated string is judged by an independent reference
//! bech32/bech32m decoder written here from BIP-173/BIP-350 (polymod, charset, the two constants,
//! the case rule, padding rule); `addr_validate` must agree with it.

use crate::driver::{Budget, Check, Cx, Failure, Spec, Tier};
use crate::gen::Gen;
use crate::util::{catch, hexs, Hx};
use crate::{ensure, fail};
use cosmwasm_std::testing::MockApi;
use cosmwasm_std::{Addr, Api, CanonicalAddr};
use cw_multi_test::{IntoAddr, IntoBech32, IntoBech32m, MockApiBech32, MockApiBech32m};
use serde::{Deserialize, Serialize};
use sha2::{Digest, Sha256};
use std::collections::HashMap;
use std::sync::Mutex;

#[derive(Clone, Copy, Debug, Serialize, Deserialize, PartialEq, Eq)]
pub enum Variant {
    Bech32,
    Bech32m,
    /// cosmwasm-std MockApi (what `IntoAddr` and `App::default()` use); bech32 checksum
    Default,
}

#[derive(Clone, Debug, Serialize, Deserialize)]
pub enum Corruption {
    Subst(usize, char),
    FlipCase(usize),
    UpperAll,
    OtherVariant,
    OtherPrefix,
    Truncate,
    Extend(char),
    DropSeparator,
    InsertAt(usize, char),
    Swap(usize),
    /// re-encode with the last data symbol's padding bits set (valid checksum, non-canonical)
    PaddingBits(u8),
    /// append an all-zero 5-bit symbol before the checksum (valid checksum, extra padding)
    ExtraSymbol,
    /// every position x every charset symbol + foreign characters
    AllSubst,
}

#[derive(Clone, Debug, Serialize, Deserialize)]
pub struct Case {
    pub variant: Variant,
    pub prefix: String,
    pub other_prefix: String,
    pub canon: Hx,
    pub name: String,
    pub name2: String,
    /// corrupt the humanised `canon` (false) or the address made from `name` (true)
    pub on_made: bool,
    pub corruptions: Vec<Corruption>,
}

pub struct AddrCheck {
    tier: Tier,
}

// ---------------------------------------------------------------- reference codec (BIP-173 / BIP-350)

const CHARSET: &[u8; 32] = b"qpzry9x8gf2tvdw0s3jn54khce6mua7l";
const BECH32_CONST: u32 = 1;
const BECH32M_CONST: u32 = 0x2bc830a3;

fn polymod(values: &[u8]) -> u32 {
    const GEN: [u32; 5] = [0x3b6a57b2, 0x26508e6d, 0x1ea119fa, 0x3d4233dd, 0x2a1462b3];
    let mut chk: u32 = 1;
    for v in values {
        let b = chk >> 25;
        chk = ((chk & 0x1ffffff) << 5) ^ (*v as u32);
        for (i, g) in GEN.iter().enumerate() {
            if (b >> i) & 1 == 1 {
                chk ^= g;
            }
        }
    }
    chk
}

fn hrp_expand(hrp: &[u8]) -> Vec<u8> {
    let mut v: Vec<u8> = hrp.iter().map(|c| c >> 5).collect();
    v.push(0);
    v.extend(hrp.iter().map(|c| c & 31));
    v
}

fn ref_const(v: Variant) -> u32 {
    match v {
        Variant::Bech32 | Variant::Default => BECH32_CONST,
        Variant::Bech32m => BECH32M_CONST,
    }
}

/// Reference encoder (lower case), used only to build non-canonical-but-checksummed strings.
fn ref_encode_symbols(hrp: &str, symbols: &[u8], v: Variant) -> String {
    let mut values = hrp_expand(hrp.as_bytes());
    values.extend_from_slice(symbols);
    values.extend_from_slice(&[0; 6]);
    let pm = polymod(&values) ^ ref_const(v);
    let mut s = String::from(hrp);
    s.push('1');
    for d in symbols {
        s.push(CHARSET[*d as usize] as char);
    }
    for i in 0..6 {
        s.push(CHARSET[((pm >> (5 * (5 - i))) & 31) as usize] as char);
    }
    s
}

fn to_symbols(bytes: &[u8]) -> Vec<u8> {
    let mut out = vec![];
    let mut acc: u32 = 0;
    let mut bits = 0;
    for b in bytes {
        acc = (acc << 8) | *b as u32;
        bits += 8;
        while bits >= 5 {
            bits -= 5;
            out.push(((acc >> bits) & 31) as u8);
        }
    }
    if bits > 0 {
        out.push(((acc << (5 - bits)) & 31) as u8);
    }
    out
}

#[derive(Debug, PartialEq, Eq)]
pub enum RefDecode {
    /// valid, lower case, canonical padding, non-empty payload, expected prefix
    Canonical(Vec<u8>),
    /// checksum-valid for this prefix but not the canonical text of its payload
    /// (all upper case, non-zero / excessive padding, empty payload)
    NonCanonical(&'static str),
    Invalid(&'static str),
}

pub fn ref_decode(s: &str, prefix: &str, v: Variant) -> RefDecode {
    use RefDecode::*;
    if s.chars().any(|c| !(33..=126).contains(&(c as u32))) {
        return Invalid("character outside 33..126");
    }
    let has_lower = s.bytes().any(|c| c.is_ascii_lowercase());
    let has_upper = s.bytes().any(|c| c.is_ascii_uppercase());
    if has_lower && has_upper {
        return Invalid("mixed case");
    }
    let Some(pos) = s.rfind('1') else {
        return Invalid("no separator");
    };
    if pos == 0 {
        return Invalid("empty hrp");
    }
    if pos > 83 {
        return Invalid("hrp too long");
    }
    let lower = s.to_ascii_lowercase();
    let (hrp, data) = (&lower[..pos], &lower[pos + 1..]);
    if data.len() < 6 {
        return Invalid("data part shorter than checksum");
    }
    let mut symbols = vec![];
    for c in data.bytes() {
        match CHARSET.iter().position(|x| *x == c) {
            Some(i) => symbols.push(i as u8),
            None => return Invalid("character not in charset"),
        }
    }
    let mut values = hrp_expand(hrp.as_bytes());
    values.extend_from_slice(&symbols);
    if polymod(&values) != ref_const(v) {
        return Invalid("checksum");
    }
    if hrp != prefix.to_ascii_lowercase() {
        return Invalid("other prefix");
    }
    if hrp != prefix {
        return NonCanonical("prefix case");
    }
    if has_upper {
        return NonCanonical("upper case");
    }
    let payload = &symbols[..symbols.len() - 6];
    let mut bytes = vec![];
    let mut acc: u32 = 0;
    let mut bits = 0;
    for d in payload {
        acc = (acc << 5) | *d as u32;
        bits += 5;
        if bits >= 8 {
            bits -= 8;
            bytes.push(((acc >> bits) & 0xFF) as u8);
        }
    }
    if bits >= 5 {
        return NonCanonical("more than 4 padding bits");
    }
    if acc & ((1 << bits) - 1) != 0 {
        return NonCanonical("non-zero padding bits");
    }
    if bytes.is_empty() {
        return NonCanonical("empty payload");
    }
    Canonical(bytes)
}

// ---------------------------------------------------------------- plumbing

fn intern(s: &str) -> &'static str {
    static TABLE: Mutex<Option<HashMap<String, &'static str>>> = Mutex::new(None);
    let mut t = TABLE.lock().unwrap();
    let map = t.get_or_insert_with(HashMap::new);
    if let Some(v) = map.get(s) {
        return v;
    }
    let leaked: &'static str = Box::leak(s.to_string().into_boxed_str());
    map.insert(s.to_string(), leaked);
    leaked
}

enum AnyApi {
    B32(MockApiBech32),
    B32m(MockApiBech32m),
    Def(MockApi),
}

impl AnyApi {
    fn new(v: Variant, prefix: &'static str) -> Self {
        match v {
            Variant::Bech32 => AnyApi::B32(MockApiBech32::new(prefix)),
            Variant::Bech32m => AnyApi::B32m(MockApiBech32m::new(prefix)),
            Variant::Default => AnyApi::Def(MockApi::default().with_prefix(prefix)),
        }
    }
    fn api(&self) -> &dyn Api {
        match self {
            AnyApi::B32(a) => a,
            AnyApi::B32m(a) => a,
            AnyApi::Def(a) => a,
        }
    }
    fn addr_make(&self, name: &str) -> Addr {
        match self {
            AnyApi::B32(a) => a.addr_make(name),
            AnyApi::B32m(a) => a.addr_make(name),
            AnyApi::Def(a) => a.addr_make(name),
        }
    }
}

const PREFIX_POOL: &[&str] = &[
    "cosmwasm", "juno", "osmo", "a", "z9", "c1c", "1", "11", "wasm-x", "!", "~~", "cosmwasm1", "x_y.z", "0",
];

fn gen_prefix(g: &mut Gen) -> String {
    match g.weighted(&[10, 3, 1]) {
        0 => g.pick(PREFIX_POOL).to_string(),
        1 => {
            // random valid lower-case hrp, 1..=12 chars
            let n = 1 + g.below(12);
            (0..n).map(|_| gen_hrp_char(g)).collect()
        }
        _ => {
            // long hrp up to the maximum of 83
            let n = g.pick(&[82usize, 83, 40, 64]);
            (0..n).map(|_| gen_hrp_char(g)).collect()
        }
    }
}

fn gen_hrp_char(g: &mut Gen) -> char {
    // ASCII 33..=126 without upper-case letters
    loop {
        let c = 33 + g.below(94) as u8;
        if !c.is_ascii_uppercase() {
            return c as char;
        }
        if g.exhausted() {
            return 'a';
        }
    }
}

fn gen_name(g: &mut Gen) -> String {
    match g.weighted(&[6, 2, 2, 2]) {
        0 => g.pick(&["owner", "creator", "alice", "bob", "", " ", "contract0", "Owner", " alice", "alice ", "alice\n", "\talice", "  ", "\n"]).to_string(),
        1 => {
            let n = g.below(12);
            (0..n).map(|_| (32 + g.below(95) as u8) as char).collect()
        }
        2 => {
            let n = g.below(6);
            (0..n).map(|_| g.pick(&['é', 'ß', '中', '\u{1F600}', '\0', '\n', 'a'])).collect()
        }
        _ => {
            let n = g.below(200);
            (0..n).map(|_| (97 + g.below(26) as u8) as char).collect()
        }
    }
}

const FOREIGN: [char; 8] = ['b', 'i', 'o', '1', 'B', 'Q', ' ', 'é'];

fn gen_subst_char(g: &mut Gen) -> char {
    if g.chance(1, 4) {
        g.pick(&FOREIGN)
    } else {
        CHARSET[g.below(32)] as char
    }
}

fn apply(c: &Corruption, s: &str, case: &Case, canon_of_s: &[u8]) -> Vec<String> {
    let chars: Vec<char> = s.chars().collect();
    let n = chars.len();
    let at = |p: usize| p % n.max(1);
    match c {
        Corruption::Subst(p, ch) => {
            let mut v = chars.clone();
            v[at(*p)] = *ch;
            vec![v.into_iter().collect()]
        }
        Corruption::FlipCase(p) => {
            // flip the first letter at or after p
            let mut v = chars.clone();
            for i in 0..n {
                let j = (at(*p) + i) % n;
                if v[j].is_ascii_alphabetic() {
                    v[j] = if v[j].is_ascii_lowercase() { v[j].to_ascii_uppercase() } else { v[j].to_ascii_lowercase() };
                    break;
                }
            }
            vec![v.into_iter().collect()]
        }
        Corruption::UpperAll => vec![s.to_ascii_uppercase()],
        Corruption::OtherVariant => {
            let other = match case.variant {
                Variant::Bech32 | Variant::Default => Variant::Bech32m,
                Variant::Bech32m => Variant::Bech32,
            };
            vec![ref_encode_symbols(&case.prefix, &to_symbols(canon_of_s), other)]
        }
        Corruption::OtherPrefix => vec![ref_encode_symbols(&case.other_prefix, &to_symbols(canon_of_s), case.variant)],
        Corruption::Truncate => vec![chars[..n.saturating_sub(1)].iter().collect()],
        Corruption::Extend(ch) => {
            let mut v = chars.clone();
            v.push(*ch);
            vec![v.into_iter().collect()]
        }
        Corruption::DropSeparator => {
            let mut v = chars.clone();
            if let Some(p) = v.iter().rposition(|c| *c == '1') {
                v.remove(p);
            }
            vec![v.into_iter().collect()]
        }
        Corruption::InsertAt(p, ch) => {
            let mut v = chars.clone();
            v.insert(at(*p), *ch);
            vec![v.into_iter().collect()]
        }
        Corruption::Swap(p) => {
            let mut v = chars.clone();
            if n >= 2 {
                let i = at(*p) % (n - 1);
                v.swap(i, i + 1);
            }
            vec![v.into_iter().collect()]
        }
        Corruption::PaddingBits(bits) => {
            let mut sym = to_symbols(canon_of_s);
            let pad = (sym.len() * 5) % 8; // number of padding bits in the last symbol
            if pad > 0 && !sym.is_empty() {
                let mask = (1u8 << pad) - 1;
                let l = sym.len() - 1;
                sym[l] |= (*bits & mask).max(1) & mask;
            }
            vec![ref_encode_symbols(&case.prefix, &sym, case.variant)]
        }
        Corruption::ExtraSymbol => {
            let mut sym = to_symbols(canon_of_s);
            sym.push(0);
            vec![ref_encode_symbols(&case.prefix, &sym, case.variant)]
        }
        Corruption::AllSubst => {
            let mut out = vec![];
            for i in 0..n {
                for ch in CHARSET.iter().map(|c| *c as char).chain(FOREIGN.iter().copied()) {
                    if chars[i] != ch {
                        let mut v = chars.clone();
                        v[i] = ch;
                        out.push(v.into_iter().collect());
                    }
                }
            }
            out
        }
    }
}

fn judge(api: &dyn Api, s: &str, prefix: &str, v: Variant, cx: &mut Cx) -> Result<(), Failure> {
    let verdict = ref_decode(s, prefix, v);
    let got = catch(|| api.addr_validate(s));
    let got = match got {
        Ok(r) => r,
        Err(p) => fail!("C18:validate-panics", "addr_validate({:?}) with prefix {:?} panicked: {}", s, prefix, p),
    };
    let canon = catch(|| api.addr_canonicalize(s));
    let canon = match canon {
        Ok(r) => r,
        Err(p) => fail!("C18:canonicalize-panics", "addr_canonicalize({:?}) panicked: {}", s, p),
    };
    match verdict {
        RefDecode::Canonical(bytes) => {
            cx.label("judged:valid");
            match got {
                Ok(a) => ensure!(a.as_str() == s, "C18:validate-changes-valid-input", "addr_validate({:?}) returned {:?}", s, a),
                Err(e) => fail!("C18:valid-address-rejected", "{:?} decodes with prefix {:?} under {:?} (payload {}) but addr_validate says {}", s, prefix, v, hexs(&bytes), e),
            }
            match canon {
                Ok(c) => ensure!(c.as_slice() == bytes.as_slice(), "C18:canonicalize-wrong-bytes", "addr_canonicalize({:?}) = {} but payload is {}", s, hexs(c.as_slice()), hexs(&bytes)),
                Err(e) => fail!("C18:valid-address-rejected", "addr_canonicalize({:?}) failed: {}", s, e),
            }
        }
        RefDecode::Invalid(why) => {
            cx.label("judged:invalid");
            if let Ok(a) = got {
                fail!("C18:invalid-address-accepted", "{:?} is not a valid {:?} address for prefix {:?} ({}) but addr_validate returned {:?}", s, v, prefix, why, a);
            }
            if let Ok(c) = canon {
                fail!("C18:invalid-address-accepted", "{:?} is not a valid {:?} address for prefix {:?} ({}) but addr_canonicalize returned {}", s, v, prefix, why, hexs(c.as_slice()));
            }
        }
        RefDecode::NonCanonical(why) => {
            cx.label("judged:non-canonical");
            // either rejected or returned unchanged; never silently turned into another string
            if let Ok(a) = got {
                ensure!(
                    a.as_str() == s,
                    "C18:validate-returns-changed-string",
                    "addr_validate({:?}) ({}) returned the different string {:?} instead of rejecting it or returning it unchanged",
                    s, why, a
                );
            }
        }
    }
    Ok(())
}

impl Check for AddrCheck {
    type Case = Case;

    fn new(_id: &str, tier: Tier) -> Self {
        AddrCheck { tier }
    }

    fn spec(_id: &str) -> Spec {
        Spec {
            id: "C18",
            level: "exploration",
            rule: "generated: codec (Bech32 / Bech32m / default MockApi), valid lower-case prefix (pool + random 1-83 chars over ASCII 33-126 incl. '1' and punctuation), canonical bytes of 1-64 bytes (zero, FF, random), two names (ASCII, unicode, empty, long; plus, as names, the made address itself and a valid address of the same codec), and 0-6 corruptions (substitution from charset or foreign chars, case flip, upper-casing, other variant, other prefix (each also spelled in upper case), truncate, extend, separator removal, insertion, swap, padding bits, extra symbol, or ALL single-character substitutions); every resulting string is judged by an independent reference decoder and addr_validate/addr_canonicalize must agree; round trips, determinism and trait/Api agreement checked on every case. Non-trivial: >=1 corruption applied and (canonical length != 32 or prefix contains '1' or punctuation); distinct = distinct serialised case",
            assumptions: vec![
                "prefixes are lower-case valid HRPs (encoders only emit lower case; an Api built with an upper-case prefix cannot validate its own output)",
                "sha256 collisions do not occur between generated names",
                "for checksum-valid but non-canonical text (all upper case, non-zero padding, empty payload) both rejection and unchanged return are accepted",
            ],
            floor_quick: 2000,
        }
    }

    fn budget(_id: &str, tier: Tier) -> Budget {
        match tier {
            Tier::Quick => Budget { cases: 100_000, max_bytes: 400 },
            Tier::Thorough => Budget { cases: 800_000, max_bytes: 500 },
        }
    }

    fn generate(&self, g: &mut Gen) -> Case {
        let variant = match g.below(3) {
            0 => Variant::Bech32,
            1 => Variant::Bech32m,
            _ => Variant::Default,
        };
        let prefix = gen_prefix(g);
        // the foreign prefix is often a close relative of the own one: an extension or a truncation
        let mut other_prefix = match g.weighted(&[3, 1, 1, 1]) {
            1 if prefix.len() < 80 => format!("{}x", prefix),
            2 if prefix.chars().count() >= 2 => {
                let mut p = prefix.clone();
                p.pop();
                p
            }
            3 if prefix.len() < 80 => format!("x{}", prefix),
            _ => gen_prefix(g),
        };
        if other_prefix == prefix {
            other_prefix.push('x');
            if other_prefix.len() > 83 {
                other_prefix = "x".into();
            }
        }
        let clen = match g.weighted(&[4, 3, 3, 2]) {
            0 => 32,
            1 => 20,
            2 => 1 + g.below(64),
            _ => g.pick(&[1usize, 2, 5, 63, 64]),
        };
        let canon: Vec<u8> = match g.below(4) {
            0 => vec![0u8; clen],
            1 => vec![0xFF; clen],
            _ => (0..clen).map(|_| g.byte()).collect(),
        };
        let name = gen_name(g);
        let mut name2 = gen_name(g);
        if name2 == name {
            name2.push('2');
        }
        let on_made = g.bool();
        let all_w = if self.tier.is_thorough() { 3 } else { 1 };
        let ncorr = g.below(7);
        let corruptions = (0..ncorr)
            .map(|_| match g.weighted(&[10, 4, 2, 3, 3, 2, 2, 2, 2, 2, 3, 2, all_w]) {
                0 => Corruption::Subst(g.below(256), gen_subst_char(g)),
                1 => Corruption::FlipCase(g.below(256)),
                2 => Corruption::UpperAll,
                3 => Corruption::OtherVariant,
                4 => Corruption::OtherPrefix,
                5 => Corruption::Truncate,
                6 => Corruption::Extend(gen_subst_char(g)),
                7 => Corruption::DropSeparator,
                8 => Corruption::InsertAt(g.below(256), gen_subst_char(g)),
                9 => Corruption::Swap(g.below(256)),
                10 => Corruption::PaddingBits(1 + g.below(15) as u8),
                11 => Corruption::ExtraSymbol,
                _ => Corruption::AllSubst,
            })
            .collect();
        Case { variant, prefix, other_prefix, canon: Hx(canon), name, name2, on_made, corruptions }
    }

    fn execute(&self, case: &Case, cx: &mut Cx) -> Result<(), Failure> {
        let v = case.variant;
        let prefix = intern(&case.prefix);
        let other_prefix = intern(&case.other_prefix);
        ensure!(!case.canon.0.is_empty() && case.canon.0.len() <= 64, "harness:bad-case", "canonical length out of domain");
        let api = AnyApi::new(v, prefix);
        let api2 = AnyApi::new(v, prefix);
        cx.label(match v {
            Variant::Bech32 => "codec:bech32",
            Variant::Bech32m => "codec:bech32m",
            Variant::Default => "codec:default",
        });

        // (1) bytes -> text -> bytes
        let canon = CanonicalAddr::from(case.canon.0.clone());
        let h = match catch(|| api.api().addr_humanize(&canon)) {
            Ok(Ok(h)) => h,
            Ok(Err(e)) => fail!("C18:humanize-fails", "addr_humanize({}) with prefix {:?} failed: {}", hexs(&case.canon.0), prefix, e),
            Err(p) => fail!("C18:humanize-panics", "addr_humanize({}) panicked: {}", hexs(&case.canon.0), p),
        };
        match ref_decode(h.as_str(), prefix, v) {
            RefDecode::Canonical(b) => ensure!(b == case.canon.0, "C18:humanize-encodes-other-bytes", "addr_humanize({}) = {:?} which decodes to {}", hexs(&case.canon.0), h, hexs(&b)),
            other => fail!("C18:humanize-output-not-valid", "addr_humanize({}) = {:?} is not a canonical {:?} string for prefix {:?}: {:?}", hexs(&case.canon.0), h, v, prefix, other),
        }
        let back = api.api().addr_canonicalize(h.as_str());
        ensure!(matches!(&back, Ok(b) if b.as_slice() == case.canon.0.as_slice()), "C18:roundtrip-bytes", "canonicalize(humanize({})) = {:?}", hexs(&case.canon.0), back);
        let val = api.api().addr_validate(h.as_str());
        ensure!(matches!(&val, Ok(a) if a == &h), "C18:roundtrip-validate", "addr_validate({:?}) = {:?}", h, val);
        let h2 = api2.api().addr_humanize(&canon);
        ensure!(matches!(&h2, Ok(x) if x == &h), "C18:humanize-not-deterministic", "second Api value humanises to {:?} instead of {:?}", h2, h);

        // (3) addresses made from names
        let a = match catch(|| api.addr_make(&case.name)) {
            Ok(a) => a,
            Err(p) => fail!("C18:addr-make-panics", "addr_make({:?}) with valid prefix {:?} panicked: {}", case.name, prefix, p),
        };
        let a_again = api2.addr_make(&case.name);
        ensure!(a == a_again, "C18:addr-make-not-deterministic", "addr_make({:?}) gave {:?} then {:?}", case.name, a, a_again);
        let digest = Sha256::digest(case.name.as_bytes()).to_vec();
        match ref_decode(a.as_str(), prefix, v) {
            RefDecode::Canonical(b) => ensure!(b == digest, "C18:addr-make-payload", "addr_make({:?}) = {:?} carries {} instead of sha256(name)", case.name, a, hexs(&b)),
            other => fail!("C18:addr-make-not-valid", "addr_make({:?}) = {:?} is not valid under its own codec/prefix: {:?}", case.name, a, other),
        }
        let va = api.api().addr_validate(a.as_str());
        ensure!(matches!(&va, Ok(x) if x == &a), "C18:addr-make-not-valid", "addr_validate(addr_make({:?})) = {:?}", case.name, va);
        let ca = api.api().addr_canonicalize(a.as_str());
        ensure!(matches!(&ca, Ok(x) if x.as_slice() == digest.as_slice()), "C18:roundtrip-bytes", "canonicalize(addr_make) = {:?}", ca);
        let ha = api.api().addr_humanize(&CanonicalAddr::from(digest.clone()));
        ensure!(matches!(&ha, Ok(x) if x == &a), "C18:roundtrip-text", "humanize(canonicalize(a)) = {:?} != {:?}", ha, a);
        // names that are themselves addresses of this codec (the made address, and the humanised
        // arbitrary bytes): still names like any other
        for (what, nm) in [("the address made from the first name", a.as_str()), ("a valid address of this codec", h.as_str())] {
            let aa = match catch(|| api.addr_make(nm)) {
                Ok(x) => x,
                Err(p) => fail!("C18:addr-make-panics", "addr_make({:?}) ({}) panicked: {}", nm, what, p),
            };
            ensure!(aa.as_str() != nm, "C18:addr-make-collision", "addr_make({:?}) returns its argument: the name {:?} and the name {:?} give the same address", nm, case.name, nm);
            // the trait forms must agree with the Api method for such names too
            let via_trait = match v {
                Variant::Default => nm.into_addr_with_prefix(prefix),
                Variant::Bech32 => nm.into_bech32_with_prefix(prefix),
                Variant::Bech32m => nm.into_bech32m_with_prefix(prefix),
            };
            ensure!(via_trait == aa, "C18:trait-disagrees", "the trait form gives {:?} for the name {:?}, the Api's addr_make {:?}", via_trait, nm, aa);
            let dg = Sha256::digest(nm.as_bytes()).to_vec();
            match ref_decode(aa.as_str(), prefix, v) {
                RefDecode::Canonical(b) => ensure!(b == dg, "C18:addr-make-payload", "addr_make({:?}) = {:?} carries {} instead of sha256(name)", nm, aa, hexs(&b)),
                other => fail!("C18:addr-make-not-valid", "addr_make({:?}) = {:?} is not valid under its own codec/prefix: {:?}", nm, aa, other),
            }
        }
        cx.label("addr-make:name-is-an-address");
        // different name / prefix / variant => different address, rejected by the foreign codec
        let b = api.addr_make(&case.name2);
        ensure!(a != b, "C18:addr-make-collision", "names {:?} and {:?} give the same address {:?}", case.name, case.name2, a);
        let other_api = AnyApi::new(v, other_prefix);
        let c = other_api.addr_make(&case.name);
        ensure!(a != c, "C18:addr-make-ignores-prefix", "prefixes {:?} and {:?} give the same address", prefix, other_prefix);
        ensure!(other_api.api().addr_validate(a.as_str()).is_err(), "C18:foreign-prefix-accepted", "Api with prefix {:?} accepts {:?}", other_prefix, a);
        ensure!(api.api().addr_validate(c.as_str()).is_err(), "C18:foreign-prefix-accepted", "Api with prefix {:?} accepts {:?}", prefix, c);
        let other_variant = match v {
            Variant::Bech32 | Variant::Default => Variant::Bech32m,
            Variant::Bech32m => Variant::Bech32,
        };
        let ov_api = AnyApi::new(other_variant, prefix);
        let d = ov_api.addr_make(&case.name);
        ensure!(a != d, "C18:addr-make-ignores-variant", "{:?} and {:?} give the same address {:?}", v, other_variant, a);
        ensure!(ov_api.api().addr_validate(a.as_str()).is_err(), "C18:other-variant-accepted", "{:?} Api accepts the {:?} address {:?}", other_variant, v, a);
        ensure!(api.api().addr_validate(d.as_str()).is_err(), "C18:other-variant-accepted", "{:?} Api accepts the {:?} address {:?}", v, other_variant, d);
        // trait forms agree with the Api method
        let name: &str = &case.name;
        match v {
            Variant::Default => {
                ensure!(name.into_addr_with_prefix(prefix) == a, "C18:trait-disagrees", "into_addr_with_prefix != MockApi.addr_make");
                ensure!(name.into_addr() == MockApi::default().addr_make(name), "C18:trait-disagrees", "into_addr != MockApi::default().addr_make");
                ensure!(name.into_bech32() == name.into_addr(), "C18:trait-disagrees", "into_bech32 (default prefix) != into_addr");
                // the default codec takes a prefix in any case and always writes lower-case addresses: the
                // trait form with the upper-case spelling of the prefix is that codec's addr_make, and valid under it
                let upper = intern(&prefix.to_ascii_uppercase());
                if upper != prefix {
                    let up_api = MockApi::default().with_prefix(upper);
                    if let Ok(made) = catch(|| up_api.addr_make(name)) {
                        let by_trait = match catch(|| name.into_addr_with_prefix(upper)) {
                            Ok(x) => x,
                            Err(p) => fail!("C18:addr-make-panics", "{:?}.into_addr_with_prefix({:?}) panicked: {}", name, upper, p),
                        };
                        ensure!(by_trait == made, "C18:trait-disagrees", "{:?}.into_addr_with_prefix({:?}) = {:?} but MockApi with that prefix makes {:?}", name, upper, by_trait, made);
                        let val = up_api.addr_validate(by_trait.as_str());
                        ensure!(matches!(&val, Ok(x) if x == &by_trait), "C18:addr-make-not-valid", "the default codec with prefix {:?} does not accept {:?} made by the trait: {:?}", upper, by_trait, val);
                    }
                }
            }
            Variant::Bech32 => {
                ensure!(name.into_bech32_with_prefix(prefix) == a, "C18:trait-disagrees", "into_bech32_with_prefix != MockApiBech32.addr_make");
                ensure!(name.into_bech32() == MockApiBech32::new("cosmwasm").addr_make(name), "C18:trait-disagrees", "into_bech32 != MockApiBech32::new(cosmwasm).addr_make");
                ensure!(name.into_addr_with_prefix(prefix) == a, "C18:trait-disagrees", "default codec and Bech32 codec disagree for the same prefix and name");
            }
            Variant::Bech32m => {
                ensure!(name.into_bech32m_with_prefix(prefix) == a, "C18:trait-disagrees", "into_bech32m_with_prefix != MockApiBech32m.addr_make");
                ensure!(name.into_bech32m() == MockApiBech32m::new("cosmwasm").addr_make(name), "C18:trait-disagrees", "into_bech32m != MockApiBech32m::new(cosmwasm).addr_make");
            }
        }

        // (2) corruptions judged by the reference decoder
        let (subject, subject_canon) = if case.on_made { (a.to_string(), digest.clone()) } else { (h.to_string(), case.canon.0.clone()) };
        let mut applied = 0u64;
        for c in &case.corruptions {
            for s in apply(c, &subject, case, &subject_canon) {
                judge(api.api(), &s, prefix, v, cx)?;
                applied += 1;
                // ... and the same string spelled in upper case (except for the exhaustive substitution sweep)
                if !matches!(c, Corruption::AllSubst | Corruption::UpperAll) {
                    let up = s.to_ascii_uppercase();
                    if up != s {
                        judge(api.api(), &up, prefix, v, cx)?;
                    }
                }
            }
            cx.label(match c {
                Corruption::Subst(..) => "corruption:subst",
                Corruption::FlipCase(..) => "corruption:flip-case",
                Corruption::UpperAll => "corruption:upper-all",
                Corruption::OtherVariant => "corruption:other-variant",
                Corruption::OtherPrefix => "corruption:other-prefix",
                Corruption::Truncate => "corruption:truncate",
                Corruption::Extend(..) => "corruption:extend",
                Corruption::DropSeparator => "corruption:drop-separator",
                Corruption::InsertAt(..) => "corruption:insert",
                Corruption::Swap(..) => "corruption:swap",
                Corruption::PaddingBits(..) => "corruption:padding-bits",
                Corruption::ExtraSymbol => "corruption:extra-symbol",
                Corruption::AllSubst => "corruption:ALL-single-substitutions",
            });
        }
        cx.count("strings-judged", applied);
        let punct = case.prefix.chars().any(|c| !c.is_ascii_lowercase());
        if applied > 0 && (case.canon.0.len() != 32 || punct) {
            cx.mark_nontrivial();
        }
        Ok(())
    }

    fn fixed_cases(&self, tier: Tier) -> Vec<Case> {
        // thorough: all single-character substitutions for a grid of (codec, prefix, length)
        let mut out = vec![];
        if !tier.is_thorough() {
            return out;
        }
        let lens = [1usize, 2, 5, 20, 31, 32, 33, 63, 64];
        for (vi, v) in [Variant::Bech32, Variant::Bech32m, Variant::Default].into_iter().enumerate() {
            for (pi, p) in PREFIX_POOL.iter().enumerate() {
                for (li, l) in lens.iter().enumerate() {
                    for on_made in [false, true] {
                        let canon: Vec<u8> = (0..*l).map(|i| (i * 37 + vi * 11 + pi * 5 + li) as u8).collect();
                        out.push(Case {
                            variant: v,
                            prefix: p.to_string(),
                            other_prefix: format!("{}x", p),
                            canon: Hx(canon),
                            name: format!("n{}{}{}", vi, pi, li),
                            name2: "other".into(),
                            on_made,
                            corruptions: vec![Corruption::AllSubst, Corruption::UpperAll, Corruption::OtherVariant, Corruption::OtherPrefix, Corruption::Truncate, Corruption::DropSeparator, Corruption::ExtraSymbol, Corruption::PaddingBits(1)],
                        });
                    }
                }
            }
        }
        out
    }

    fn shrink(&self, case: &Case) -> Vec<Case> {
        let mut out = vec![];
        for i in 0..case.corruptions.len() {
            let mut c = case.clone();
            c.corruptions.remove(i);
            out.push(c);
        }
        if case.canon.0.len() > 1 {
            let mut c = case.clone();
            c.canon.0.truncate(case.canon.0.len() / 2);
            out.push(c);
            let mut c = case.clone();
            c.canon.0.pop();
            out.push(c);
        }
        if case.canon.0.iter().any(|b| *b != 0) {
            let mut c = case.clone();
            c.canon.0.iter_mut().for_each(|b| *b = 0);
            out.push(c);
        }
        if case.prefix != "a" {
            let mut c = case.clone();
            c.prefix = "a".into();
            if c.other_prefix == "a" {
                c.other_prefix = "b".into();
            }
            out.push(c);
        }
        if !case.name.is_empty() {
            let mut c = case.clone();
            c.name = String::new();
            if c.name2.is_empty() {
                c.name2 = "x".into();
            }
            out.push(c);
        }
        out
    }
}
