//! C17 — every message and query reaches exactly the module configured for it.
//!
//! Every router slot (bank, custom, staking, distribution, ibc, gov, stargate) holds a recording
//! module whose behaviour is chosen per case: the crate's real keeper / default, the crate's
//! AcceptingModule / StargateAccepting, or the crate's FailingModule / StargateFailing. Each call
//! is logged out of band (slot, operation, sender, payload) and writes a marker key before the
//! delegate runs, so that both misrouting and missing rollback are observable. Messages and
//! queries are sent from top level, from a chain of puppets (contracts written for the chain's
//! custom message type) and from a chain of Empty-typed contracts lifted by ContractWrapper.

use crate::driver::{Budget, Check, Cx, Failure, Spec, Tier};
use crate::engines::tree::puppet::{install, make_code, raw_query, take_trace, Kind, NodeRt, PMsg, XMsg, XQuery};
use crate::engines::tree::types::{Family, Write, RO};
use crate::gen::Gen;
use crate::util::{catch, diff_scans, scan, Hx};
use crate::{ensure, fail};
use cosmwasm_std::testing::{mock_env, MockApi, MockStorage};
use cosmwasm_std::{
    coin, to_json_binary, to_json_vec, Addr, AnyMsg, Api, BankMsg, BankQuery, Binary, BlockInfo, Coin, CosmosMsg, CustomMsg, CustomQuery, Decimal, DistributionMsg, Empty, GovMsg, GrpcQuery, IbcMsg, IbcQuery,
    IbcTimeout, Querier, QueryRequest, ReplyOn, StakingMsg, StakingQuery, Storage, SubMsg, Timestamp, Validator, VoteOption, WasmMsg, WasmQuery, WeightedVoteOption,
};
use cw_multi_test::error::AnyResult;
use cw_multi_test::{
    AcceptingModule, App, AppResponse, Bank, BankKeeper, BankSudo, BasicAppBuilder, CosmosRouter, Distribution, DistributionKeeper, Executor, FailingModule, Gov, Ibc, Module, StakeKeeper, Staking, StakingSudo,
    Stargate, StargateAccepting, StargateFailing, SudoMsg, Wasm, WasmKeeper, WasmSudo,
};
use serde::de::DeserializeOwned;
use serde::{Deserialize, Serialize};
use std::cell::RefCell;
use std::collections::BTreeMap;
use std::fmt::Debug;

#[derive(Clone, Copy, Debug, Serialize, Deserialize, PartialEq, Eq)]
pub enum Mode {
    /// the crate's real keeper (bank, staking, distribution) or default failing module
    Default,
    Accept,
    Fail,
}

#[derive(Clone, Debug, PartialEq, Eq)]
pub struct LogEntry {
    pub slot: &'static str,
    pub op: &'static str,
    pub sender: String,
    pub payload: String,
}

thread_local! {
    static RLOG: RefCell<Vec<LogEntry>> = const { RefCell::new(Vec::new()) };
    /// what an accepting module answers: 0 = no data, 1 = present-but-empty data, 2 = data and an event
    static RET: std::cell::Cell<u8> = const { std::cell::Cell::new(0) };
}

fn ret_data(ret: u8) -> Option<Vec<u8>> {
    match ret {
        1 => Some(vec![]),
        2 => Some(b"ret".to_vec()),
        _ => None,
    }
}

fn rlog(slot: &'static str, op: &'static str, sender: &str, payload: String) {
    RLOG.with(|l| l.borrow_mut().push(LogEntry { slot, op, sender: sender.to_string(), payload }));
}
fn take_rlog() -> Vec<LogEntry> {
    RLOG.with(|l| std::mem::take(&mut *l.borrow_mut()))
}

fn mark(storage: &mut dyn Storage, slot: &str) {
    let mut k = b"\x00\x07recmark".to_vec();
    k.extend_from_slice(slot.as_bytes());
    let n = storage.get(&k).map(|v| v.len()).unwrap_or(0);
    storage.set(&k, &vec![b'x'; n + 1]);
}

pub struct Rec<I> {
    pub inner: I,
    pub mode: Mode,
    pub slot: &'static str,
}

impl<I> Module for Rec<I>
where
    I: Module,
    I::ExecT: Debug + Serialize,
    I::QueryT: Debug + Serialize,
    I::SudoT: Debug,
{
    type ExecT = I::ExecT;
    type QueryT = I::QueryT;
    type SudoT = I::SudoT;

    fn execute<ExecC, QueryC>(&self, api: &dyn Api, storage: &mut dyn Storage, router: &dyn CosmosRouter<ExecC = ExecC, QueryC = QueryC>, block: &BlockInfo, sender: Addr, msg: Self::ExecT) -> AnyResult<AppResponse>
    where
        ExecC: CustomMsg + DeserializeOwned + 'static,
        QueryC: CustomQuery + DeserializeOwned + 'static,
    {
        rlog(self.slot, "exec", sender.as_str(), serde_json::to_string(&msg).unwrap_or_default());
        mark(storage, self.slot);
        match self.mode {
            Mode::Default => self.inner.execute(api, storage, router, block, sender, msg),
            Mode::Accept => {
                let mut r = AcceptingModule::<I::ExecT, I::QueryT, I::SudoT>::new().execute(api, storage, router, block, sender, msg)?;
                let ret = RET.with(|c| c.get());
                r.data = ret_data(ret).map(Binary::from);
                if ret == 2 {
                    r.events.push(cosmwasm_std::Event::new("modev").add_attribute("k", "v"));
                }
                Ok(r)
            }
            Mode::Fail => FailingModule::<I::ExecT, I::QueryT, I::SudoT>::new().execute(api, storage, router, block, sender, msg),
        }
    }

    fn query(&self, api: &dyn Api, storage: &dyn Storage, querier: &dyn Querier, block: &BlockInfo, request: Self::QueryT) -> AnyResult<Binary> {
        rlog(self.slot, "query", "", serde_json::to_string(&request).unwrap_or_default());
        match self.mode {
            Mode::Default => self.inner.query(api, storage, querier, block, request),
            Mode::Accept => AcceptingModule::<I::ExecT, I::QueryT, I::SudoT>::new().query(api, storage, querier, block, request),
            Mode::Fail => FailingModule::<I::ExecT, I::QueryT, I::SudoT>::new().query(api, storage, querier, block, request),
        }
    }

    fn sudo<ExecC, QueryC>(&self, api: &dyn Api, storage: &mut dyn Storage, router: &dyn CosmosRouter<ExecC = ExecC, QueryC = QueryC>, block: &BlockInfo, msg: Self::SudoT) -> AnyResult<AppResponse>
    where
        ExecC: CustomMsg + DeserializeOwned + 'static,
        QueryC: CustomQuery + DeserializeOwned + 'static,
    {
        rlog(self.slot, "sudo", "", format!("{:?}", msg));
        mark(storage, self.slot);
        match self.mode {
            Mode::Default => self.inner.sudo(api, storage, router, block, msg),
            Mode::Accept => AcceptingModule::<I::ExecT, I::QueryT, I::SudoT>::new().sudo(api, storage, router, block, msg),
            Mode::Fail => FailingModule::<I::ExecT, I::QueryT, I::SudoT>::new().sudo(api, storage, router, block, msg),
        }
    }
}

impl Bank for Rec<BankKeeper> {}
impl Staking for Rec<StakeKeeper> {
    fn process_queue<ExecC: CustomMsg, QueryC: CustomQuery>(&self, api: &dyn Api, storage: &mut dyn Storage, router: &dyn CosmosRouter<ExecC = ExecC, QueryC = QueryC>, block: &BlockInfo) -> AnyResult<AppResponse> {
        self.inner.process_queue(api, storage, router, block)
    }
}
impl Distribution for Rec<DistributionKeeper> {}
impl Ibc for Rec<FailingModule<IbcMsg, IbcQuery, Empty>> {}
impl Gov for Rec<FailingModule<GovMsg, Empty, Empty>> {}

/// Recording wasm module: a configured wasm module that delegates everything to the crate's keeper.
/// Every WasmMsg, top-level or emitted by a contract, must pass through it.
pub struct RecWasm {
    pub inner: WasmKeeper<XMsg, XQuery>,
}

impl Wasm<XMsg, XQuery> for RecWasm {
    fn execute(&self, api: &dyn Api, storage: &mut dyn Storage, router: &dyn CosmosRouter<ExecC = XMsg, QueryC = XQuery>, block: &BlockInfo, sender: Addr, msg: WasmMsg) -> AnyResult<AppResponse> {
        let target = match &msg {
            WasmMsg::Execute { contract_addr, .. } | WasmMsg::Migrate { contract_addr, .. } => contract_addr.clone(),
            WasmMsg::Instantiate { .. } => "<instantiate>".to_string(),
            other => format!("{:?}", other).chars().take(40).collect(),
        };
        rlog("wasm", "exec", sender.as_str(), target);
        self.inner.execute(api, storage, router, block, sender, msg)
    }
    fn query(&self, api: &dyn Api, storage: &dyn Storage, querier: &dyn Querier, block: &BlockInfo, request: WasmQuery) -> AnyResult<Binary> {
        rlog("wasm", "query", "", serde_json::to_string(&request).unwrap_or_default());
        self.inner.query(api, storage, querier, block, request)
    }
    fn sudo(&self, api: &dyn Api, storage: &mut dyn Storage, router: &dyn CosmosRouter<ExecC = XMsg, QueryC = XQuery>, block: &BlockInfo, msg: WasmSudo) -> AnyResult<AppResponse> {
        rlog("wasm", "sudo", "", msg.contract_addr.to_string());
        self.inner.sudo(api, storage, router, block, msg)
    }
    fn store_code(&mut self, creator: Addr, code: Box<dyn cw_multi_test::Contract<XMsg, XQuery>>) -> u64 {
        self.inner.store_code(creator, code)
    }
    fn store_code_with_id(&mut self, creator: Addr, code_id: u64, code: Box<dyn cw_multi_test::Contract<XMsg, XQuery>>) -> AnyResult<u64> {
        self.inner.store_code_with_id(creator, code_id, code)
    }
    fn duplicate_code(&mut self, code_id: u64) -> AnyResult<u64> {
        self.inner.duplicate_code(code_id)
    }
    fn contract_data(&self, storage: &dyn Storage, address: &Addr) -> AnyResult<cw_multi_test::ContractData> {
        self.inner.contract_data(storage, address)
    }
    fn dump_wasm_raw(&self, storage: &dyn Storage, address: &Addr) -> Vec<cosmwasm_std::Record> {
        self.inner.dump_wasm_raw(storage, address)
    }
}

pub struct RecStargate {
    pub mode: Mode,
}

impl Stargate for RecStargate {
    fn execute_stargate<ExecC, QueryC>(&self, api: &dyn Api, storage: &mut dyn Storage, router: &dyn CosmosRouter<ExecC = ExecC, QueryC = QueryC>, block: &BlockInfo, sender: Addr, type_url: String, value: Binary) -> AnyResult<AppResponse>
    where
        ExecC: CustomMsg + DeserializeOwned + 'static,
        QueryC: CustomQuery + DeserializeOwned + 'static,
    {
        rlog("stargate", "exec-stargate", sender.as_str(), format!("{}|{}", type_url, value));
        mark(storage, "stargate");
        match self.mode {
            Mode::Accept => StargateAccepting.execute_stargate(api, storage, router, block, sender, type_url, value),
            _ => StargateFailing.execute_stargate(api, storage, router, block, sender, type_url, value),
        }
    }
    fn query_stargate(&self, api: &dyn Api, storage: &dyn Storage, querier: &dyn Querier, block: &BlockInfo, path: String, data: Binary) -> AnyResult<Binary> {
        rlog("stargate", "query-stargate", "", format!("{}|{}", path, data));
        match self.mode {
            Mode::Accept => StargateAccepting.query_stargate(api, storage, querier, block, path, data),
            _ => StargateFailing.query_stargate(api, storage, querier, block, path, data),
        }
    }
    fn execute_any<ExecC, QueryC>(&self, api: &dyn Api, storage: &mut dyn Storage, router: &dyn CosmosRouter<ExecC = ExecC, QueryC = QueryC>, block: &BlockInfo, sender: Addr, msg: AnyMsg) -> AnyResult<AppResponse>
    where
        ExecC: CustomMsg + DeserializeOwned + 'static,
        QueryC: CustomQuery + DeserializeOwned + 'static,
    {
        rlog("stargate", "exec-any", sender.as_str(), format!("{}|{}", msg.type_url, msg.value));
        mark(storage, "stargate");
        match self.mode {
            Mode::Accept => StargateAccepting.execute_any(api, storage, router, block, sender, msg),
            _ => StargateFailing.execute_any(api, storage, router, block, sender, msg),
        }
    }
    fn query_grpc(&self, api: &dyn Api, storage: &dyn Storage, querier: &dyn Querier, block: &BlockInfo, request: GrpcQuery) -> AnyResult<Binary> {
        rlog("stargate", "query-grpc", "", format!("{}|{}", request.path, request.data));
        match self.mode {
            Mode::Accept => StargateAccepting.query_grpc(api, storage, querier, block, request),
            _ => StargateFailing.query_grpc(api, storage, querier, block, request),
        }
    }
}

type RApp = App<Rec<BankKeeper>, MockApi, MockStorage, Rec<FailingModule<XMsg, XQuery, Empty>>, RecWasm, Rec<StakeKeeper>, Rec<DistributionKeeper>, Rec<FailingModule<IbcMsg, IbcQuery, Empty>>, Rec<FailingModule<GovMsg, Empty, Empty>>, RecStargate>;

// ---------------------------------------------------------------- case

#[derive(Clone, Debug, Serialize, Deserialize, PartialEq, Eq)]
pub enum K {
    BankSend(u8),
    BankBurn(u8),
    Custom(u32),
    Delegate(u8),
    Undelegate(u8),
    Redelegate(u8),
    SetWithdraw,
    WithdrawReward,
    FundCommunity(u8),
    IbcTransfer(Hx),
    IbcSendPacket(Hx),
    IbcClose,
    GovVote(u64, u8),
    GovVoteWeighted(u64),
    Stargate(String, Hx),
    Any(String, Hx),
}

#[derive(Clone, Debug, Serialize, Deserialize, PartialEq, Eq)]
pub enum Q {
    BankBalance,
    BankSupply,
    Custom(u32),
    BondedDenom,
    AllValidators,
    IbcPort,
    IbcChannels,
    Stargate(String, Hx),
    Grpc(String, Hx),
}

#[derive(Clone, Debug, Serialize, Deserialize, PartialEq, Eq)]
pub enum S {
    BankMint(u8),
    Slash(u8),
}

#[derive(Clone, Copy, Debug, Serialize, Deserialize, PartialEq, Eq)]
pub enum Origin {
    Top,
    Puppet,
    Lifted,
}

#[derive(Clone, Debug, Serialize, Deserialize, PartialEq, Eq)]
pub enum What {
    Exec(K),
    Query(Q),
    Sudo(S),
}

/// entry point of the emitting contract from which the routed message is returned
#[derive(Clone, Copy, Debug, Serialize, Deserialize, PartialEq, Eq, Default)]
pub enum Via {
    #[default]
    Execute,
    Migrate,
    Sudo,
    /// from the reply entry point: the emitting contract first calls a helper (which succeeds or
    /// fails, see `trigger_fails`) with reply_on Always and returns the routed message from the
    /// reply to that call
    Reply,
}

#[derive(Clone, Debug, Serialize, Deserialize)]
pub struct Case {
    /// answer of an accepting module (see `RET`): must reach the caller / the reply unchanged
    #[serde(default)]
    pub ret: u8,
    /// the emitting contract first calls *itself* with funds attached: the transfer of the attached
    /// funds is a bank message like any other (sender = recipient) and must reach the bank module
    #[serde(default)]
    pub self_funded: bool,
    /// an earlier sibling sub-message (reply_on Never) fails before the routed message: the
    /// transaction is aborted there and the routed message must never reach any module
    #[serde(default)]
    pub before_fails: bool,
    #[serde(default)]
    pub trigger_fails: bool,
    #[serde(default)]
    pub via: Via,
    /// before the case proper, one transaction on the same App in which a contract dispatches several dozen
    /// sub-messages that fail and are caught by its reply entry point
    #[serde(default)]
    pub storm: bool,
    /// bank, custom, staking, distribution, ibc, gov, stargate
    pub modes: Vec<Mode>,
    pub origin: Origin,
    /// number of contracts between the user and the message (1-3; ignored for Origin::Top)
    pub depth: u8,
    pub what: What,
    pub reply_on: RO,
    /// an earlier sibling sub-message writes to another contract before the routed message
    pub sibling: bool,
}

const SLOTS: [&str; 7] = ["bank", "custom", "staking", "distribution", "ibc", "gov", "stargate"];

fn slot_of(k: &K) -> usize {
    match k {
        K::BankSend(_) | K::BankBurn(_) => 0,
        K::Custom(_) => 1,
        K::Delegate(_) | K::Undelegate(_) | K::Redelegate(_) => 2,
        K::SetWithdraw | K::WithdrawReward | K::FundCommunity(_) => 3,
        K::IbcTransfer(_) | K::IbcSendPacket(_) | K::IbcClose => 4,
        K::GovVote(..) | K::GovVoteWeighted(_) => 5,
        K::Stargate(..) | K::Any(..) => 6,
    }
}

struct Built {
    app: RApp,
    user: Addr,
    other: Addr,
    /// chain contracts (puppet family), chain contracts (lifted family), helper puppet
    puppets: Vec<Addr>,
    lifted: Vec<Addr>,
    helper: Addr,
    puppet_code: u64,
    lifted_code: u64,
}

fn build(modes: &[Mode]) -> Built {
    let m = |i: usize| modes.get(i).copied().unwrap_or(Mode::Default);
    let api = MockApi::default();
    let user = api.addr_make("user");
    let other = api.addr_make("other");
    let u2 = user.clone();
    let app: RApp = BasicAppBuilder::<XMsg, XQuery>::new_custom()
        .with_bank(Rec { inner: BankKeeper::new(), mode: m(0), slot: "bank" })
        .with_custom(Rec { inner: FailingModule::<XMsg, XQuery, Empty>::new(), mode: m(1), slot: "custom" })
        .with_staking(Rec { inner: StakeKeeper::new(), mode: m(2), slot: "staking" })
        .with_distribution(Rec { inner: DistributionKeeper::new(), mode: m(3), slot: "distribution" })
        .with_ibc(Rec { inner: FailingModule::<IbcMsg, IbcQuery, Empty>::new(), mode: m(4), slot: "ibc" })
        .with_gov(Rec { inner: FailingModule::<GovMsg, Empty, Empty>::new(), mode: m(5), slot: "gov" })
        .with_stargate(RecStargate { mode: m(6) })
        .with_wasm(RecWasm { inner: WasmKeeper::new() })
        .build(|router, api, storage| {
            router.bank.inner.init_balance(storage, &u2, vec![coin(1000, "TOKEN"), coin(1000, "eth")]).unwrap();
            let v = Validator::new("validator1".to_string(), Decimal::percent(10), Decimal::percent(20), Decimal::percent(1));
            router.staking.inner.add_validator(api, storage, &mock_env().block, v).unwrap();
            let v2 = Validator::new("validator2".to_string(), Decimal::percent(5), Decimal::percent(20), Decimal::percent(1));
            router.staking.inner.add_validator(api, storage, &mock_env().block, v2).unwrap();
        });
    let mut b = Built { app, user: user.clone(), other, puppets: vec![], lifted: vec![], helper: Addr::unchecked(""), puppet_code: 0, lifted_code: 0 };
    let pc = b.app.store_code(make_code(0, Family::Puppet, None));
    let lc = b.app.store_code(make_code(1, Family::WrappedFull, None));
    // instantiation runs puppet code: give it an empty plan
    install(BTreeMap::new(), BTreeMap::new(), BTreeMap::new());
    b.puppet_code = pc;
    b.lifted_code = lc;
    for i in 0..3 {
        // every chain contract is administered by its predecessor in the chain (the user for the first)
        let admin = if i == 0 { user.to_string() } else { b.puppets[i - 1].to_string() };
        let a = b.app.instantiate_contract(pc, user.clone(), &PMsg { n: 9999 }, &[], format!("p{}", i), Some(admin)).unwrap();
        b.puppets.push(a);
        let admin = if i == 0 { user.to_string() } else { b.lifted[i - 1].to_string() };
        let a = b.app.instantiate_contract(lc, user.clone(), &PMsg { n: 9999 }, &[], format!("l{}", i), Some(admin)).unwrap();
        b.lifted.push(a);
    }
    b.helper = b.app.instantiate_contract(pc, user.clone(), &PMsg { n: 9999 }, &[], "helper", None).unwrap();
    // fund every contract directly (bank may be a non-default module, so write through the keeper)
    let all: Vec<Addr> = b.puppets.iter().chain(b.lifted.iter()).cloned().collect();
    b.app.init_modules(|router, _, storage| {
        for a in &all {
            router.bank.inner.init_balance(storage, a, vec![coin(500, "TOKEN"), coin(500, "eth")]).unwrap();
        }
    });
    let _ = take_trace();
    let _ = take_rlog();
    b
}

fn to_msg(k: &K, b: &Built) -> CosmosMsg<XMsg> {
    match k {
        K::BankSend(n) => BankMsg::Send { to_address: b.other.to_string(), amount: vec![coin(amt(*n), "eth")] }.into(),
        K::BankBurn(n) => BankMsg::Burn { amount: vec![coin(amt(*n), "eth")] }.into(),
        K::Custom(t) => CosmosMsg::Custom(XMsg { tag: *t, fail: false }),
        K::Delegate(n) => StakingMsg::Delegate { validator: "validator1".into(), amount: coin(amt(*n), "TOKEN") }.into(),
        K::Undelegate(n) => StakingMsg::Undelegate { validator: "validator1".into(), amount: coin(amt(*n), "TOKEN") }.into(),
        K::Redelegate(n) => StakingMsg::Redelegate { src_validator: "validator1".into(), dst_validator: "validator2".into(), amount: coin(amt(*n), "TOKEN") }.into(),
        K::SetWithdraw => DistributionMsg::SetWithdrawAddress { address: b.other.to_string() }.into(),
        K::WithdrawReward => DistributionMsg::WithdrawDelegatorReward { validator: "validator1".into() }.into(),
        K::FundCommunity(n) => DistributionMsg::FundCommunityPool { amount: vec![coin(amt(*n), "TOKEN")] }.into(),
        K::IbcTransfer(memo) => IbcMsg::Transfer { channel_id: "channel-7".into(), to_address: "remote".into(), amount: coin(3, "eth"), timeout: IbcTimeout::with_timestamp(Timestamp::from_seconds(99)), memo: Some(hex::encode(&memo.0)) }.into(),
        K::IbcSendPacket(d) => IbcMsg::SendPacket { channel_id: "channel-9".into(), data: Binary::from(d.0.clone()), timeout: IbcTimeout::with_timestamp(Timestamp::from_seconds(7)) }.into(),
        K::IbcClose => IbcMsg::CloseChannel { channel_id: "channel-1".into() }.into(),
        K::GovVote(id, o) => GovMsg::Vote { proposal_id: *id, option: [VoteOption::Yes, VoteOption::No, VoteOption::Abstain, VoteOption::NoWithVeto][*o as usize % 4].clone() }.into(),
        K::GovVoteWeighted(id) => GovMsg::VoteWeighted { proposal_id: *id, options: vec![WeightedVoteOption { option: VoteOption::Yes, weight: Decimal::percent(60) }, WeightedVoteOption { option: VoteOption::No, weight: Decimal::percent(40) }] }.into(),
        #[allow(deprecated)]
        K::Stargate(url, v) => CosmosMsg::Stargate { type_url: url.clone(), value: Binary::from(v.0.clone()) },
        K::Any(url, v) => CosmosMsg::Any(AnyMsg { type_url: url.clone(), value: Binary::from(v.0.clone()) }),
    }
}

/// (slot, op, payload) expected in the log for a message
fn expected_log(msg: &CosmosMsg<XMsg>) -> (&'static str, &'static str, String) {
    let j = |v: serde_json::Result<String>| v.unwrap_or_default();
    match msg {
        CosmosMsg::Bank(m) => ("bank", "exec", j(serde_json::to_string(m))),
        CosmosMsg::Custom(m) => ("custom", "exec", j(serde_json::to_string(m))),
        CosmosMsg::Staking(m) => ("staking", "exec", j(serde_json::to_string(m))),
        CosmosMsg::Distribution(m) => ("distribution", "exec", j(serde_json::to_string(m))),
        CosmosMsg::Ibc(m) => ("ibc", "exec", j(serde_json::to_string(m))),
        CosmosMsg::Gov(m) => ("gov", "exec", j(serde_json::to_string(m))),
        #[allow(deprecated)]
        CosmosMsg::Stargate { type_url, value } => ("stargate", "exec-stargate", format!("{}|{}", type_url, value)),
        CosmosMsg::Any(m) => ("stargate", "exec-any", format!("{}|{}", m.type_url, m.value)),
        _ => ("?", "?", String::new()),
    }
}

fn to_query(q: &Q, b: &Built) -> QueryRequest<XQuery> {
    match q {
        Q::BankBalance => BankQuery::Balance { address: b.user.to_string(), denom: "eth".into() }.into(),
        Q::BankSupply => BankQuery::Supply { denom: "eth".into() }.into(),
        Q::Custom(t) => QueryRequest::Custom(XQuery { tag: *t }),
        Q::BondedDenom => StakingQuery::BondedDenom {}.into(),
        Q::AllValidators => StakingQuery::AllValidators {}.into(),
        Q::IbcPort => IbcQuery::PortId {}.into(),
        Q::IbcChannels => IbcQuery::ListChannels { port_id: Some("p".into()) }.into(),
        #[allow(deprecated)]
        Q::Stargate(path, d) => QueryRequest::Stargate { path: path.clone(), data: Binary::from(d.0.clone()) },
        Q::Grpc(path, d) => QueryRequest::Grpc(GrpcQuery { path: path.clone(), data: Binary::from(d.0.clone()) }),
    }
}

fn expected_qlog(q: &QueryRequest<XQuery>) -> (usize, &'static str, String) {
    let j = |v: serde_json::Result<String>| v.unwrap_or_default();
    match q {
        QueryRequest::Bank(m) => (0, "query", j(serde_json::to_string(m))),
        QueryRequest::Custom(m) => (1, "query", j(serde_json::to_string(m))),
        QueryRequest::Staking(m) => (2, "query", j(serde_json::to_string(m))),
        QueryRequest::Ibc(m) => (4, "query", j(serde_json::to_string(m))),
        #[allow(deprecated)]
        QueryRequest::Stargate { path, data } => (6, "query-stargate", format!("{}|{}", path, data)),
        QueryRequest::Grpc(g) => (6, "query-grpc", format!("{}|{}", g.path, g.data)),
        _ => (99, "?", String::new()),
    }
}

/// amounts 1, 2, 3 and - for n = 3 - zero: a zero amount is a payload like any other; whether it is
/// acceptable is the receiving module's decision, nobody else's
fn amt(n: u8) -> u128 {
    if n == 3 {
        0
    } else {
        1 + n as u128
    }
}

/// Does the module in `slot` accept this message (given how the case funds its senders)?
fn accepts(mode: Mode, k: &K) -> bool {
    match mode {
        Mode::Accept => true,
        Mode::Fail => false,
        Mode::Default => match k {
            // the real keepers refuse zero amounts
            K::BankSend(3) | K::BankBurn(3) | K::Delegate(3) => false,
            // senders are funded; the real keepers accept these, and only these are sent to them
            K::BankSend(_) | K::BankBurn(_) | K::Delegate(_) | K::SetWithdraw => true,
            _ => false,
        },
    }
}

fn query_accepts(mode: Mode, q: &Q) -> bool {
    match mode {
        Mode::Accept => true,
        Mode::Fail => false,
        Mode::Default => matches!(q, Q::BankBalance | Q::BankSupply | Q::BondedDenom | Q::AllValidators),
    }
}

/// With a real keeper in the slot only well-formed requests it supports are in the domain.
fn in_domain(mode: Mode, k: &K) -> bool {
    match (mode, k) {
        (Mode::Default, K::Undelegate(_) | K::Redelegate(_) | K::WithdrawReward | K::FundCommunity(_)) => false,
        _ => true,
    }
}

pub struct RoutingCheck {
    tier: Tier,
}

fn ro(r: RO) -> ReplyOn {
    match r {
        RO::Never => ReplyOn::Never,
        RO::Success => ReplyOn::Success,
        RO::Error => ReplyOn::Error,
        RO::Always => ReplyOn::Always,
    }
}

fn gen_k(g: &mut Gen) -> K {
    let small = |g: &mut Gen| g.below(4) as u8;
    let bytes = |g: &mut Gen| Hx(g.bytes_from(8, &[]));
    let url = |g: &mut Gen| g.pick(&["/cosmos.bank.v1beta1.MsgSend", "/x", "", "/ibc.core.channel.v1.MsgChannelOpenInit"]).to_string();
    match g.below(16) {
        0 => K::BankSend(small(g)),
        1 => K::BankBurn(small(g)),
        2 => K::Custom(g.below(5) as u32),
        3 => K::Delegate(small(g)),
        4 => K::Undelegate(small(g)),
        5 => K::Redelegate(small(g)),
        6 => K::SetWithdraw,
        7 => K::WithdrawReward,
        8 => K::FundCommunity(small(g)),
        9 => K::IbcTransfer(bytes(g)),
        10 => K::IbcSendPacket(bytes(g)),
        11 => K::IbcClose,
        12 => K::GovVote(g.below(100) as u64, small(g)),
        13 => K::GovVoteWeighted(g.below(100) as u64),
        14 => K::Stargate(url(g), bytes(g)),
        _ => K::Any(url(g), bytes(g)),
    }
}

fn gen_q(g: &mut Gen) -> Q {
    // (rarely a request beyond 64 KiB)
    let bytes = |g: &mut Gen| if g.chance(1, 12) { Hx(vec![0x5a; 66_000 + g.below(3000)]) } else { Hx(g.bytes_from(8, &[])) };
    match g.below(9) {
        0 => Q::BankBalance,
        1 => Q::BankSupply,
        2 => Q::Custom(g.below(5) as u32),
        3 => Q::BondedDenom,
        4 => Q::AllValidators,
        5 => Q::IbcPort,
        6 => Q::IbcChannels,
        7 => Q::Stargate(g.pick(&["/cosmos.bank.v1beta1.Query/Balance", "/q"]).to_string(), bytes(g)),
        _ => Q::Grpc(g.pick(&["/cosmos.bank.v1beta1.Query/Balance", "/q"]).to_string(), bytes(g)),
    }
}

impl RoutingCheck {
    fn run(&self, case: &Case, cx: &mut Cx) -> Result<(), Failure> {
        ensure!(case.modes.len() == 7, "harness:bad-case", "seven modes expected");
        let mut b = build(&case.modes);
        let depth = (case.depth.clamp(1, 3)) as usize;
        let chain: Vec<Addr> = match case.origin {
            Origin::Top => vec![],
            Origin::Puppet => b.puppets[..depth].to_vec(),
            Origin::Lifted => b.lifted[..depth].to_vec(),
        };
        if case.storm {
            let helper = b.helper.clone();
            let failing: CosmosMsg<XMsg> = WasmMsg::Execute { contract_addr: helper.to_string(), msg: to_json_binary(&PMsg { n: 71 }).unwrap(), funds: vec![] }.into();
            let mut nodes: BTreeMap<usize, NodeRt> = BTreeMap::new();
            nodes.insert(70, NodeRt { subs: (0..34).map(|_| SubMsg { id: 9, payload: Binary::from(b"st".to_vec()), msg: failing.clone(), gas_limit: None, reply_on: ReplyOn::Error }).collect(), ..Default::default() });
            nodes.insert(71, NodeRt { fail: true, ..Default::default() });
            nodes.insert(72, NodeRt::default());
            let mut lookup = BTreeMap::new();
            lookup.insert((helper.to_string(), 9u64, b"st".to_vec()), 72usize);
            install(nodes, BTreeMap::new(), lookup);
            let (app, user) = (&mut b.app, b.user.clone());
            let warm: CosmosMsg<XMsg> = WasmMsg::Execute { contract_addr: helper.to_string(), msg: to_json_binary(&PMsg { n: 70 }).unwrap(), funds: vec![] }.into();
            let r = catch(|| app.execute(user, warm).map(|_| ()).map_err(|e| e.to_string()));
            let _ = take_trace();
            let _ = take_rlog();
            ensure!(matches!(r, Ok(Ok(()))), "C17:module-success-reported-as-error", "a call whose 34 failing sub-messages are all caught by reply did not succeed: {:?}", r);
            cx.label("storm-before");
        }
        let before = scan(b.app.storage());
        match &case.what {
            What::Exec(k) => {
                let slot = slot_of(k);
                let mode = case.modes[slot];
                if !in_domain(mode, k) || (case.origin == Origin::Lifted && matches!(k, K::Custom(_))) {
                    cx.label("skipped:outside-domain");
                    return Ok(());
                }
                let msg = to_msg(k, &b);
                let (eslot, eop, epayload) = expected_log(&msg);
                // the real stake keeper moves the delegated coins through the bank module
                let ok = accepts(mode, k) && !(matches!(k, K::Delegate(_)) && mode == Mode::Default && case.modes[0] == Mode::Fail);
                let emitter: Addr = chain.last().cloned().unwrap_or(b.user.clone());
                // how the emitting contract's entry point is reached
                let via = match case.via {
                    Via::Sudo if chain.len() == 1 => Via::Sudo,
                    Via::Migrate if !chain.is_empty() => Via::Migrate,
                    Via::Reply if !chain.is_empty() => Via::Reply,
                    _ => Via::Execute,
                };
                let code_id = if case.origin == Origin::Lifted { b.lifted_code } else { b.puppet_code };
                // only with a bank module that carries out (or accepts) the transfer
                let self_funded = case.self_funded && !chain.is_empty() && case.modes[0] != Mode::Fail && via != Via::Reply;
                // plan: node i at chain[i] forwards to chain[i+1]; the last one emits [sibling?, msg]
                let mut nodes: BTreeMap<usize, NodeRt> = BTreeMap::new();
                let mut lookup = BTreeMap::new();
                for i in 0..chain.len() {
                    let mut n = NodeRt { writes: vec![Write::Set(Hx(b"w".to_vec()), Hx(vec![1 + i as u8]))], ..Default::default() };
                    if i + 1 < chain.len() {
                        let into_emitter = i + 2 == chain.len();
                        let m: CosmosMsg<XMsg> = if into_emitter && via == Via::Migrate {
                            WasmMsg::Migrate { contract_addr: chain[i + 1].to_string(), new_code_id: code_id, msg: to_json_binary(&PMsg { n: i + 1 }).unwrap() }.into()
                        } else {
                            WasmMsg::Execute { contract_addr: chain[i + 1].to_string(), msg: to_json_binary(&PMsg { n: i + 1 }).unwrap(), funds: vec![] }.into()
                        };
                        n.subs.push(SubMsg { id: 1, payload: Binary::default(), msg: m, gas_limit: None, reply_on: ReplyOn::Never });
                    } else {
                        if self_funded {
                            let m: CosmosMsg<XMsg> = WasmMsg::Execute { contract_addr: chain[i].to_string(), msg: to_json_binary(&PMsg { n: 53 }).unwrap(), funds: vec![coin(1, "eth"), coin(2, "TOKEN")] }.into();
                            n.subs.push(SubMsg { id: 4, payload: Binary::default(), msg: m, gas_limit: None, reply_on: ReplyOn::Never });
                        }
                        if case.sibling {
                            let m: CosmosMsg<XMsg> = WasmMsg::Execute { contract_addr: b.helper.to_string(), msg: to_json_binary(&PMsg { n: 50 }).unwrap(), funds: vec![] }.into();
                            n.subs.push(SubMsg { id: 2, payload: Binary::default(), msg: m, gas_limit: None, reply_on: ReplyOn::Never });
                        }
                        let routed = SubMsg { id: 7, payload: Binary::from(b"pl".to_vec()), msg: msg.clone(), gas_limit: None, reply_on: ro(case.reply_on) };
                        let failing: Option<SubMsg<XMsg>> = if case.before_fails {
                            let m: CosmosMsg<XMsg> = WasmMsg::Execute { contract_addr: b.helper.to_string(), msg: to_json_binary(&PMsg { n: 52 }).unwrap(), funds: vec![] }.into();
                            Some(SubMsg { id: 3, payload: Binary::default(), msg: m, gas_limit: None, reply_on: ReplyOn::Never })
                        } else {
                            None
                        };
                        if via == Via::Reply {
                            let m: CosmosMsg<XMsg> = WasmMsg::Execute { contract_addr: b.helper.to_string(), msg: to_json_binary(&PMsg { n: 51 }).unwrap(), funds: vec![] }.into();
                            n.subs.push(SubMsg { id: 8, payload: Binary::from(b"tr".to_vec()), msg: m, gas_limit: None, reply_on: ReplyOn::Always });
                            lookup.insert((chain[i].to_string(), 8u64, b"tr".to_vec()), 61usize);
                            nodes.insert(61, NodeRt { writes: vec![Write::Set(Hx(b"triggered".to_vec()), Hx(vec![1]))], subs: failing.into_iter().chain(std::iter::once(routed)).collect(), ..Default::default() });
                        } else {
                            n.subs.extend(failing);
                            n.subs.push(routed);
                        }
                        lookup.insert((chain[i].to_string(), 7u64, b"pl".to_vec()), 60usize);
                    }
                    nodes.insert(i, n);
                }
                nodes.insert(50, NodeRt { writes: vec![Write::Set(Hx(b"sib".to_vec()), Hx(vec![1]))], ..Default::default() });
                nodes.insert(53, NodeRt { writes: vec![Write::Set(Hx(b"selfcall".to_vec()), Hx(vec![1]))], ..Default::default() });
                nodes.insert(52, NodeRt { writes: vec![Write::Set(Hx(b"doomed".to_vec()), Hx(vec![1]))], fail: true, ..Default::default() });
                nodes.insert(51, NodeRt { writes: vec![Write::Set(Hx(b"trig".to_vec()), Hx(vec![1]))], fail: case.trigger_fails, ..Default::default() });
                nodes.insert(60, NodeRt { writes: vec![Write::Set(Hx(b"replied".to_vec()), Hx(vec![1]))], ..Default::default() });
                install(nodes, BTreeMap::new(), lookup);
                let _ = take_rlog();
                let app = &mut b.app;
                let user = b.user.clone();
                let top: CosmosMsg<XMsg> = if chain.is_empty() {
                    msg.clone()
                } else if chain.len() == 1 && via == Via::Migrate {
                    WasmMsg::Migrate { contract_addr: chain[0].to_string(), new_code_id: code_id, msg: to_json_binary(&PMsg { n: 0 }).unwrap() }.into()
                } else {
                    WasmMsg::Execute { contract_addr: chain[0].to_string(), msg: to_json_binary(&PMsg { n: 0 }).unwrap(), funds: vec![] }.into()
                };
                let sudo_target = chain.first().cloned();
                // a user's message may be the second of a batch: a bank send goes first (then the module's
                // failure must undo that send as well)
                let batched = chain.is_empty() && case.sibling && case.modes[0] != Mode::Fail && slot != 0;
                let first_of_batch: CosmosMsg<XMsg> = BankMsg::Send { to_address: b.other.to_string(), amount: vec![coin(3, "eth")] }.into();
                RET.with(|c| c.set(case.ret % 3));
                let top_data: RefCell<Option<(Option<Vec<u8>>, Vec<cosmwasm_std::Event>)>> = RefCell::new(None);
                let res = catch(|| {
                    if via == Via::Sudo {
                        app.wasm_sudo(sudo_target.unwrap(), &PMsg { n: 0 }).map(|_| ()).map_err(|e| e.to_string())
                    } else {
                        if batched {
                            app.execute_multi(user, vec![first_of_batch.clone(), top]).map(|mut rs| {
                                if let Some(r) = rs.pop() {
                                    *top_data.borrow_mut() = Some((r.data.map(|d| d.to_vec()), r.events));
                                }
                            }).map_err(|e| e.to_string())
                        } else {
                            app.execute(user, top).map(|r| *top_data.borrow_mut() = Some((r.data.map(|d| d.to_vec()), r.events))).map_err(|e| e.to_string())
                        }
                    }
                });
                RET.with(|c| c.set(0));
                let top_data = top_data.into_inner();
                let (trace, _) = take_trace();
                let log = take_rlog();
                let res = match res {
                    Ok(r) => r,
                    Err(p) => fail!(crate::util::panic_sig(&p), "routing {:?} from {:?} (depth {}) panicked: {}", k, case.origin, depth, p),
                };
                // --- the log: exactly one entry for the routed message, in the right slot
                // ignored: the puppets' own balance probe at entry, and the coins the real stake keeper
                // moves through the bank module
                // the configured wasm module must see every hop of the call chain, with the true sender
                let wasm_seen: Vec<(String, String)> = log.iter().filter(|e| e.slot == "wasm" && e.op == "exec").map(|e| (e.sender.clone(), e.payload.clone())).collect();
                let mut wasm_want: Vec<(String, String)> = vec![];
                for (i, c) in chain.iter().enumerate() {
                    if via == Via::Sudo && i == 0 {
                        continue; // reaches the module through Wasm::sudo, not Wasm::execute
                    }
                    wasm_want.push((if i == 0 { b.user.to_string() } else { chain[i - 1].to_string() }, c.to_string()));
                }
                if self_funded {
                    wasm_want.push((emitter.to_string(), emitter.to_string()));
                }
                if case.sibling && !chain.is_empty() {
                    wasm_want.push((emitter.to_string(), b.helper.to_string()));
                }
                if via == Via::Reply {
                    wasm_want.push((emitter.to_string(), b.helper.to_string()));
                }
                let aborted_before = case.before_fails && !chain.is_empty();
                if aborted_before {
                    wasm_want.push((emitter.to_string(), b.helper.to_string()));
                }
                ensure!(wasm_seen == wasm_want, "C17:wasm-module-bypassed", "{:?} from {:?}: the configured wasm module saw the calls {:?}, the call chain is {:?}", k, case.origin, wasm_seen, wasm_want);
                let mine: Vec<&LogEntry> = log.iter().filter(|e| e.slot != "wasm").filter(|e| !(e.slot == "bank" && e.op == "query" && e.payload.contains("all_balances"))).filter(|e| !(e.slot == "bank" && eslot == "staking" && mode == Mode::Default)).collect();
                let mut mine = mine;
                if batched {
                    let (tslot, top_, tpayload) = expected_log(&first_of_batch);
                    let is_first = |e: &LogEntry| e.slot == tslot && e.op == top_ && e.payload == tpayload && e.sender == b.user.as_str();
                    if !log.iter().any(is_first) {
                        fail!("C17:message-not-delivered", "{:?}: the bank send that goes first in the batch never reached the bank module; log: {:?}", k, log);
                    }
                    if let Some(p) = mine.iter().position(|e| is_first(e)) {
                        mine.remove(p);
                    }
                    cx.label("exec:second-of-a-batch");
                }
                if self_funded {
                    // the funds attached to the self-call: one bank send from the contract to itself
                    // (two coins, not in denomination order: the list must arrive as attached)
                    let transfer: CosmosMsg<XMsg> = BankMsg::Send { to_address: emitter.to_string(), amount: vec![coin(1, "eth"), coin(2, "TOKEN")] }.into();
                    let (tslot, top, tpayload) = expected_log(&transfer);
                    let is_transfer = |e: &LogEntry| e.slot == tslot && e.op == top && e.payload == tpayload && e.sender == emitter.as_str();
                    if !log.iter().any(is_transfer) {
                        fail!("C17:message-not-delivered", "{:?} from {:?}: the contract called itself with [1eth, 2TOKEN] attached, but the bank module never received that transfer; log: {:?}", k, case.origin, log);
                    }
                    if let Some(p) = mine.iter().position(|e| is_transfer(e)) {
                        mine.remove(p);
                    }
                    cx.label("exec:self-call-with-funds");
                }
                let hits: Vec<&&LogEntry> = mine.iter().filter(|e| e.slot == eslot && e.op == eop && e.payload == epayload).collect();
                if aborted_before {
                    // the sibling before the routed message failed without being caught: nothing after it may run
                    ensure!(mine.is_empty(), "C17:delivered-after-abort", "{:?} from {:?}: an earlier sibling sub-message failed (reply_on Never), yet modules were called afterwards: {:?}", k, case.origin, mine);
                    ensure!(res.is_err(), "C17:module-failure-swallowed", "{:?} from {:?}: an earlier sibling failed uncaught but the caller got Ok", k, case.origin);
                    let after = scan(b.app.storage());
                    if let Some(d) = diff_scans(&before, &after) {
                        fail!("C17:failed-module-left-state", "{:?} from {:?}: the call returned Err, but storage changed: {}", k, case.origin, d);
                    }
                    let entered: Vec<&str> = trace.iter().filter(|e| matches!(e.kind, Kind::Execute | Kind::Migrate | Kind::Sudo)).map(|e| e.contract.as_str()).collect();
                    let mut want: Vec<&str> = chain.iter().map(|a| a.as_str()).collect();
                    if self_funded {
                        want.push(emitter.as_str());
                    }
                    for _ in 0..(case.sibling as usize + (via == Via::Reply) as usize + 1) {
                        want.push(b.helper.as_str());
                    }
                    ensure!(entered == want, "C17:call-chain", "{:?}: entered {:?}, expected {:?}", k, entered, want);
                    cx.label("exec:aborted-before-the-routed-message");
                    cx.mark_nontrivial();
                    return Ok(());
                }
                ensure!(!hits.is_empty(), "C17:message-not-delivered", "{:?} from {:?}: the {} module never received the message (payload {}); log: {:?}", k, case.origin, eslot, epayload, log);
                ensure!(hits.len() == 1, "C17:message-delivered-twice", "{:?}: delivered {} times to {}", k, hits.len(), eslot);
                ensure!(hits[0].sender == emitter.as_str(), "C17:wrong-sender", "{:?} from {:?}: module saw sender {} but the message was dispatched by {}", k, case.origin, hits[0].sender, emitter);
                let strangers: Vec<&&LogEntry> = mine.iter().filter(|e| !(e.slot == eslot && e.op == eop && e.payload == epayload)).collect();
                ensure!(strangers.is_empty(), "C17:other-module-called", "{:?} from {:?}: other module calls were made: {:?}", k, case.origin, strangers);
                // --- what the caller sees
                let catching = !chain.is_empty() && matches!(case.reply_on, RO::Error | RO::Always);
                let want_ok = ok || catching;
                ensure!(res.is_ok() == want_ok, if res.is_ok() { "C17:module-failure-swallowed" } else { "C17:module-success-reported-as-error" }, "{:?} from {:?} with {:?} module and reply_on {:?}: caller got {:?}", k, case.origin, mode, case.reply_on, res);
                let after = scan(b.app.storage());
                if !want_ok {
                    if let Some(d) = diff_scans(&before, &after) {
                        fail!("C17:failed-module-left-state", "{:?} from {:?}: the module failed, the call returned Err, but storage changed: {}", k, case.origin, d);
                    }
                } else if !ok {
                    // caught: the module's marker and nothing of the failed message may remain
                    // (a self-call with funds has legitimately gone through the bank module before)
                    let leaked = !(self_funded && eslot == "bank") && after.iter().any(|(key, _)| key.starts_with(b"\x00\x07recmark") && key.ends_with(eslot.as_bytes()));
                    ensure!(!leaked, "C17:failed-module-left-state", "{:?}: failing {} module's write survived although the failure was caught by reply", k, eslot);
                }
                // --- the module's answer is what the caller sees
                let answering = ok && mode == Mode::Accept && slot != 6;
                if answering && chain.is_empty() {
                    let want = ret_data(case.ret % 3);
                    let got = top_data.as_ref().map(|t| t.0.clone()).unwrap_or(None);
                    ensure!(got == want, "C17:module-answer-altered", "{:?} from the user: the module answered data {:?}, the caller received {:?}", k, want, got);
                    if case.ret % 3 == 2 {
                        ensure!(top_data.as_ref().map_or(false, |t| t.1.iter().any(|e| e.ty == "modev")), "C17:module-answer-altered", "{:?} from the user: the module's event did not reach the caller", k);
                    }
                    cx.label("exec:module-answer-checked");
                }
                // --- replies
                if !chain.is_empty() {
                    let replies: Vec<&crate::engines::tree::puppet::TraceEntry> = trace.iter().filter(|e| e.kind == Kind::Reply && e.reply.as_ref().map_or(true, |r| r.id != 8)).collect();
                    if via == Via::Reply {
                        let trig: Vec<&crate::engines::tree::puppet::TraceEntry> = trace.iter().filter(|e| e.kind == Kind::Reply && e.reply.as_ref().map_or(false, |r| r.id == 8)).collect();
                        ensure!(trig.len() == 1 && trig[0].reply.as_ref().map(|r| r.ok) == Some(!case.trigger_fails), "C17:call-chain", "{:?}: the reply that emits the routed message ran {} times ({:?})", k, trig.len(), trig.first().map(|t| &t.reply));
                    }
                    let due = (ok && matches!(case.reply_on, RO::Success | RO::Always)) || (!ok && matches!(case.reply_on, RO::Error | RO::Always));
                    // whether a reply runs is C03's; here only: if it runs, it reports the module's outcome
                    let _ = due;
                    if let Some(r) = replies.first() {
                        ensure!(r.reply.as_ref().map(|x| (x.ok, x.id, x.payload.as_slice())) == Some((ok, 7, &b"pl"[..])) && r.contract == emitter.as_str(), "C17:reply-content", "{:?}: reply {:?} at {}", k, r.reply, r.contract);
                        if answering {
                            let want = ret_data(case.ret % 3);
                            let got = r.reply.as_ref().and_then(|x| x.data.clone());
                            ensure!(got == want, "C17:module-answer-altered", "{:?} from {:?}: the module answered data {:?}, the reply was handed {:?}", k, case.origin, want, got);
                            if case.ret % 3 == 2 {
                                ensure!(r.reply.as_ref().map_or(false, |x| x.events.iter().any(|e| e.ty == "modev")), "C17:module-answer-altered", "{:?} from {:?}: the module's event did not reach the reply", k, case.origin);
                            }
                            cx.label("exec:module-answer-checked");
                        }
                    }
                    let entered: Vec<&str> = trace.iter().filter(|e| matches!(e.kind, Kind::Execute | Kind::Migrate | Kind::Sudo)).map(|e| e.contract.as_str()).collect();
                    let mut want: Vec<&str> = chain.iter().map(|a| a.as_str()).collect();
                    if self_funded {
                        want.push(emitter.as_str());
                    }
                    if case.sibling {
                        want.push(b.helper.as_str());
                    }
                    if via == Via::Reply {
                        want.push(b.helper.as_str());
                    }
                    ensure!(entered == want, "C17:call-chain", "{:?}: entered {:?}, expected {:?}", k, entered, want);
                }
                cx.label(&format!("exec:{}:{:?}:{:?}", eslot, case.origin, mode));
                cx.label(&format!("emitted-from:{:?}", via));
                if via == Via::Reply {
                    cx.label(if case.trigger_fails { "emitted-from:reply-to-a-failed-call" } else { "emitted-from:reply-to-a-successful-call" });
                }
                if (slot != 0 && !chain.is_empty()) || case.origin == Origin::Lifted || (!ok && case.sibling) {
                    cx.mark_nontrivial();
                }
            }
            What::Query(q) => {
                let req = to_query(q, &b);
                let (slot, eop, epayload) = expected_qlog(&req);
                let mode = case.modes[slot];
                let ok = query_accepts(mode, q);
                let raw = to_json_vec(&req).unwrap();
                let _ = take_rlog();
                let answer: Result<String, ()> = if chain.is_empty() {
                    match catch(|| raw_query(&b.app, &raw)) {
                        Ok(a) => a,
                        Err(p) => fail!(crate::util::panic_sig(&p), "query {:?} panicked: {}", q, p),
                    }
                } else {
                    let mut nodes: BTreeMap<usize, NodeRt> = BTreeMap::new();
                    for i in 0..chain.len() {
                        let mut n = NodeRt::default();
                        if i + 1 < chain.len() {
                            let m: CosmosMsg<XMsg> = WasmMsg::Execute { contract_addr: chain[i + 1].to_string(), msg: to_json_binary(&PMsg { n: i + 1 }).unwrap(), funds: vec![] }.into();
                            n.subs.push(SubMsg { id: 1, payload: Binary::default(), msg: m, gas_limit: None, reply_on: ReplyOn::Never });
                        } else {
                            // the same request twice from one entry point: both must be routed
                            n.queries.push(raw.clone());
                            n.queries.push(raw.clone());
                        }
                        nodes.insert(i, n);
                    }
                    install(nodes, BTreeMap::new(), BTreeMap::new());
                    let app = &mut b.app;
                    let user = b.user.clone();
                    let top: CosmosMsg<XMsg> = WasmMsg::Execute { contract_addr: chain[0].to_string(), msg: to_json_binary(&PMsg { n: 0 }).unwrap(), funds: vec![] }.into();
                    let r = catch(|| app.execute(user, top).map(|_| ()).map_err(|e| e.to_string()));
                    let (trace, _) = take_trace();
                    match r {
                        Ok(Ok(())) => {}
                        Ok(Err(e)) => fail!("C17:query-broke-transaction", "query {:?} from a contract made the transaction fail: {}", q, e),
                        Err(p) => fail!(crate::util::panic_sig(&p), "query {:?} from a contract panicked: {}", q, p),
                    }
                    let answers = trace.last().map(|e| e.queries.clone()).unwrap_or_default();
                    ensure!(answers.len() == 2 && answers[0] == answers[1], "C17:query-result", "query {:?} asked twice from one entry point was answered {:?}", q, answers);
                    answers[0].clone()
                };
                let log = take_rlog();
                // own-balance probes of the puppets go to the bank slot; ignore those
                let probes = |e: &&LogEntry| e.slot == "bank" && e.op == "query" && e.payload.contains("all_balances");
                let wasm_hops = log.iter().filter(|e| e.slot == "wasm" && e.op == "exec").count();
                ensure!(wasm_hops == chain.len(), "C17:wasm-module-bypassed", "query {:?} from {:?}: the configured wasm module saw {} of {} calls of the chain", q, case.origin, wasm_hops, chain.len());
                let rest: Vec<&LogEntry> = log.iter().filter(|e| !probes(e) && e.slot != "wasm").collect();
                let hits = rest.iter().filter(|e| e.slot == SLOTS[slot] && e.op == eop && e.payload == epayload).count();
                let asked = if chain.is_empty() { 1 } else { 2 };
                ensure!(hits == asked, "C17:query-not-delivered", "query {:?} from {:?}: asked {} time(s), {} deliveries to {} (log {:?})", q, case.origin, asked, hits, SLOTS[slot], rest);
                ensure!(rest.len() == asked, "C17:other-module-called", "query {:?} from {:?}: other module calls: {:?}", q, case.origin, rest);
                ensure!(answer.is_ok() == ok, "C17:query-result", "query {:?} with {:?} module: caller got {:?}", q, mode, answer);
                let after = scan(b.app.storage());
                if chain.is_empty() {
                    ensure!(before == after, "C17:query-changed-state", "query changed storage");
                }
                cx.label(&format!("query:{}:{:?}:{:?}", SLOTS[slot], case.origin, mode));
                if !chain.is_empty() {
                    cx.mark_nontrivial();
                }
            }
            What::Sudo(s) => {
                let (slot, msg): (usize, SudoMsg) = match s {
                    S::BankMint(n) => (0, SudoMsg::Bank(BankSudo::Mint { to_address: b.other.to_string(), amount: vec![coin(amt(*n), "eth")] })),
                    S::Slash(p) => (2, SudoMsg::Staking(StakingSudo::Slash { validator: "validator1".into(), percentage: Decimal::percent((*p % 101) as u64) })),
                };
                let mode = case.modes[slot];
                let _ = take_rlog();
                let app = &mut b.app;
                let r = match catch(|| app.sudo(msg).map(|_| ()).map_err(|e| e.to_string())) {
                    Ok(r) => r,
                    Err(p) => fail!(crate::util::panic_sig(&p), "sudo {:?} panicked: {}", s, p),
                };
                let log = take_rlog();
                ensure!(log.len() == 1 && log[0].slot == SLOTS[slot] && log[0].op == "sudo", "C17:sudo-not-delivered", "sudo {:?}: log {:?}", s, log);
                // (the real bank keeper refuses to mint nothing)
                let ok = mode != Mode::Fail && !(mode == Mode::Default && matches!(s, S::BankMint(3)));
                ensure!(r.is_ok() == ok, "C17:sudo-result", "sudo {:?} with {:?} module: {:?}", s, mode, r);
                if !ok {
                    let after = scan(b.app.storage());
                    ensure!(before == after, "C17:failed-module-left-state", "failed sudo changed storage: {:?}", diff_scans(&before, &after));
                }
                cx.label(&format!("sudo:{}:{:?}", SLOTS[slot], mode));
            }
        }
        let _ = WasmSudo::new(&b.user, &Empty {});
        let _: Option<(Coin, WasmQuery)> = None;
        Ok(())
    }
}

impl Check for RoutingCheck {
    type Case = Case;

    fn new(_id: &str, tier: Tier) -> Self {
        RoutingCheck { tier }
    }

    fn spec(_id: &str) -> Spec {
        Spec {
            id: "C17",
            level: "exploration",
            rule: "generated: a mode (crate's real keeper/default, crate's accepting module, crate's failing module) for each of the seven router slots, a message (16 kinds over bank, custom, staking, distribution, ibc, gov, stargate, any) or query (9 kinds) or sudo with generated payload, an entry point of the emitting contract (execute, migrate, sudo, or the reply to a helper call that succeeded or failed), an origin (top level, alone or as the second message of a batch whose first is a bank send; chain of 1-3 contracts written for the chain's message type; chain of 1-3 Empty-typed contracts lifted by ContractWrapper), a reply_on mode, an optional earlier sibling write, an optional earlier call of the contract to itself with funds attached (the transfer must reach the bank slot) and an optional earlier sibling that fails uncaught (then nothing may be delivered); oracle: exactly one log entry, in the slot configured for that kind, with the dispatching contract/user as sender and the payload intact, no other module called, caller sees Ok iff the module accepted (or the failure is caught by reply), the data and events an accepting module answers (none / present-but-empty / bytes plus an event) reach the caller or the reply unchanged, failed calls leave root storage byte-identical including the marker the module wrote before failing. The cross product {kind} x {origin} x {mode} x {Never, Always} is enumerated in every run. Non-trivial: a non-bank kind from depth>=1, or the lifted origin, or a failing module after a sibling write, or a query from inside a contract; distinct = distinct serialised case One case in twelve is preceded, on the same App, by a transaction in which a contract dispatches 34 sub-messages that fail and are caught by its reply; stargate / grpc query data is 66-69 KB in one query in twelve",
            assumptions: vec![
                "with a real keeper in a slot only requests that keeper supports are sent (delegate, set-withdraw-address, bank send/burn by funded senders)",
                "CosmosMsg::Custom cannot be emitted by an Empty-typed contract (excluded for the lifted origin)",
                "QueryRequest::Distribution and SudoMsg::Custom have no receiving module type (excluded)",
            ],
            floor_quick: 500,
        }
    }

    fn budget(_id: &str, tier: Tier) -> Budget {
        match tier {
            Tier::Quick => Budget { cases: 20_000, max_bytes: 64 },
            Tier::Thorough => Budget { cases: 300_000, max_bytes: 64 },
        }
    }

    fn generate(&self, g: &mut Gen) -> Case {
        let _ = self.tier;
        let modes = (0..7).map(|_| match g.below(3) { 0 => Mode::Default, 1 => Mode::Accept, _ => Mode::Fail }).collect();
        let origin = match g.below(3) {
            0 => Origin::Top,
            1 => Origin::Puppet,
            _ => Origin::Lifted,
        };
        let what = match g.weighted(&[6, 3, 1]) {
            0 => What::Exec(gen_k(g)),
            1 => What::Query(gen_q(g)),
            _ => What::Sudo(if g.bool() { S::BankMint(g.below(4) as u8) } else { S::Slash(g.below(120) as u8) }),
        };
        let reply_on = match g.below(4) {
            0 => RO::Never,
            1 => RO::Success,
            2 => RO::Error,
            _ => RO::Always,
        };
        let via = match g.weighted(&[3, 2, 1, 3]) {
            0 => Via::Execute,
            1 => Via::Migrate,
            2 => Via::Sudo,
            _ => Via::Reply,
        };
        Case { ret: g.below(3) as u8, self_funded: g.chance(1, 4), before_fails: g.chance(1, 6), trigger_fails: g.bool(), via, storm: g.chance(1, 12), modes, origin, depth: 1 + g.below(3) as u8, what, reply_on, sibling: g.bool() }
    }

    fn execute(&self, case: &Case, cx: &mut Cx) -> Result<(), Failure> {
        self.run(case, cx)
    }

    fn fixed_cases(&self, _tier: Tier) -> Vec<Case> {
        let kinds = vec![
            K::BankSend(0), K::BankBurn(0), K::Custom(1), K::Delegate(0), K::Undelegate(0), K::Redelegate(0), K::SetWithdraw, K::WithdrawReward, K::FundCommunity(0),
            K::IbcTransfer(Hx(vec![1])), K::IbcSendPacket(Hx(vec![2])), K::IbcClose, K::GovVote(1, 0), K::GovVoteWeighted(2), K::Stargate("/x".into(), Hx(vec![3])), K::Any("/y".into(), Hx(vec![4])),
        ];
        let mut out = vec![];
        for k in &kinds {
            for origin in [Origin::Top, Origin::Puppet, Origin::Lifted] {
                for mode in [Mode::Default, Mode::Accept, Mode::Fail] {
                    for reply_on in [RO::Never, RO::Always] {
                        let mut modes = vec![Mode::Default; 7];
                        modes[slot_of(k)] = mode;
                        for via in [Via::Execute, Via::Migrate, Via::Sudo, Via::Reply] {
                            out.push(Case { ret: (out.len() % 3) as u8, self_funded: via == Via::Execute && reply_on == RO::Never, before_fails: false, trigger_fails: reply_on == RO::Always, via, storm: false, modes: modes.clone(), origin, depth: 1, what: What::Exec(k.clone()), reply_on, sibling: reply_on == RO::Never });
                        }
                    }
                }
            }
        }
        let queries = vec![Q::BankBalance, Q::BankSupply, Q::Custom(1), Q::BondedDenom, Q::AllValidators, Q::IbcPort, Q::IbcChannels, Q::Stargate("/q".into(), Hx(vec![1])), Q::Grpc("/q".into(), Hx(vec![2]))];
        for q in &queries {
            for origin in [Origin::Top, Origin::Puppet, Origin::Lifted] {
                for mode in [Mode::Default, Mode::Accept, Mode::Fail] {
                    out.push(Case { ret: 0, self_funded: false, before_fails: false, trigger_fails: false, via: Via::Execute, storm: false, modes: vec![mode; 7], origin, depth: 2, what: What::Query(q.clone()), reply_on: RO::Never, sibling: false });
                }
            }
        }
        out
    }

    fn fixed_exhaustive() -> bool {
        true
    }

    fn shrink(&self, case: &Case) -> Vec<Case> {
        let mut out = vec![];
        if case.depth > 1 {
            let mut c = case.clone();
            c.depth = 1;
            out.push(c);
        }
        if case.via != Via::Execute {
            let mut c = case.clone();
            c.via = Via::Execute;
            out.push(c);
        }
        if case.sibling {
            let mut c = case.clone();
            c.sibling = false;
            out.push(c);
        }
        if case.trigger_fails {
            let mut c = case.clone();
            c.trigger_fails = false;
            out.push(c);
        }
        if case.storm {
            let mut c = case.clone();
            c.storm = false;
            out.push(c);
        }
        if case.before_fails {
            let mut c = case.clone();
            c.before_fails = false;
            out.push(c);
        }
        if case.self_funded {
            let mut c = case.clone();
            c.self_funded = false;
            out.push(c);
        }
        if case.ret != 0 {
            let mut c = case.clone();
            c.ret = 0;
            out.push(c);
        }
        for i in 0..7 {
            if case.modes[i] != Mode::Default {
                let mut c = case.clone();
                c.modes[i] = Mode::Default;
                out.push(c);
            }
        }
        if case.reply_on != RO::Never {
            let mut c = case.clone();
            c.reply_on = RO::Never;
            out.push(c);
        }
        out
    }
}
