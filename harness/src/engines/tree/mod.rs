//! The tree engine: scripted contracts + reference interpreter + per-property projections.
//! Serves C01 C02 C03 C04 C05 C08 C10 C13 C19 (and, with the registry profile, C11 C12).

pub mod det;
pub mod gen;
pub mod judge;
pub mod model;
pub mod puppet;
pub mod types;

use crate::driver::{Budget, Check, Cx, Failure, Spec, Tier};
use crate::gen::Gen;
use crate::util::{catch, diff_scans, panic_sig, restore, scan};
use cosmwasm_std::testing::{MockApi, MockStorage};
use cosmwasm_std::{coin, Addr, Api, BlockInfo, Checksum, Coin, CosmosMsg, QueryRequest, Timestamp, WasmMsg};
use cw_multi_test::{App, AppResponse, BankKeeper, BankSudo, BasicAppBuilder, DistributionKeeper, Executor, GovFailingModule, IbcFailingModule, StakeKeeper, StargateFailing, SudoMsg, WasmKeeper, WasmSudo};
use judge::{compare_responses, compare_state, compare_traces, okerr_owners, Actual, Disc, Observed, Pred};
use model::{Fixed, Interp, MState, Resp, Site};
use puppet::{install, make_code, take_trace, PMsg, XModule, XMsg, XQuery, XQueryResp, MAX_TAGS};
use std::collections::{BTreeMap, BTreeSet};
use types::*;

/// the Api of the App under test: either of the two Bech32 implementations users meet
pub enum FlexApi {
    Std(MockApi),
    Crate(cw_multi_test::MockApiBech32),
}

impl Api for FlexApi {
    fn addr_validate(&self, human: &str) -> cosmwasm_std::StdResult<Addr> {
        match self {
            FlexApi::Std(a) => a.addr_validate(human),
            FlexApi::Crate(a) => a.addr_validate(human),
        }
    }
    fn addr_canonicalize(&self, human: &str) -> cosmwasm_std::StdResult<cosmwasm_std::CanonicalAddr> {
        match self {
            FlexApi::Std(a) => a.addr_canonicalize(human),
            FlexApi::Crate(a) => a.addr_canonicalize(human),
        }
    }
    fn addr_humanize(&self, canonical: &cosmwasm_std::CanonicalAddr) -> cosmwasm_std::StdResult<Addr> {
        match self {
            FlexApi::Std(a) => a.addr_humanize(canonical),
            FlexApi::Crate(a) => a.addr_humanize(canonical),
        }
    }
    fn secp256k1_verify(&self, h: &[u8], s: &[u8], k: &[u8]) -> Result<bool, cosmwasm_std::VerificationError> {
        match self {
            FlexApi::Std(a) => a.secp256k1_verify(h, s, k),
            FlexApi::Crate(a) => a.secp256k1_verify(h, s, k),
        }
    }
    fn secp256k1_recover_pubkey(&self, h: &[u8], s: &[u8], r: u8) -> Result<Vec<u8>, cosmwasm_std::RecoverPubkeyError> {
        match self {
            FlexApi::Std(a) => a.secp256k1_recover_pubkey(h, s, r),
            FlexApi::Crate(a) => a.secp256k1_recover_pubkey(h, s, r),
        }
    }
    fn ed25519_verify(&self, m: &[u8], s: &[u8], k: &[u8]) -> Result<bool, cosmwasm_std::VerificationError> {
        match self {
            FlexApi::Std(a) => a.ed25519_verify(m, s, k),
            FlexApi::Crate(a) => a.ed25519_verify(m, s, k),
        }
    }
    fn ed25519_batch_verify(&self, m: &[&[u8]], s: &[&[u8]], k: &[&[u8]]) -> Result<bool, cosmwasm_std::VerificationError> {
        match self {
            FlexApi::Std(a) => a.ed25519_batch_verify(m, s, k),
            FlexApi::Crate(a) => a.ed25519_batch_verify(m, s, k),
        }
    }
    fn debug(&self, message: &str) {
        match self {
            FlexApi::Std(a) => a.debug(message),
            FlexApi::Crate(a) => a.debug(message),
        }
    }
}

pub type TApp = App<BankKeeper, FlexApi, MockStorage, XModule, WasmKeeper<XMsg, XQuery>, StakeKeeper, DistributionKeeper, IbcFailingModule, GovFailingModule, StargateFailing>;

pub struct World {
    pub prefix: &'static str,
    pub app: TApp,
    pub fx: Fixed,
    pub st: MState,
    pub ever: BTreeMap<String, BTreeSet<Vec<u8>>>,
    /// some earlier call of this history (scripted or with injected faults) met a failure that a reply caught
    pub caught_before: bool,
    next_tag: u32,
}

fn resp_of(r: &AppResponse) -> Resp {
    Resp { events: r.events.clone(), data: r.data.as_ref().map(|d| d.to_vec()) }
}

const WASM_CONTRACTS_PREFIX: &[u8] = b"\x00\x04wasm\x00\x09contracts";

impl World {
    pub fn new(setup: &Setup) -> World {
        World::with_prefix(setup, "cosmwasm")
    }

    /// makes this World's address codec the current one for the reference interpreter
    pub fn enter(&self) {
        model::PREFIX.with(|p| p.set(self.prefix));
    }

    pub fn with_prefix(setup: &Setup, prefix: &'static str) -> World {
        model::PREFIX.with(|p| p.set(prefix));
        let api = MockApi::default().with_prefix(prefix);
        let users: Vec<String> = (0..N_USERS).map(|i| api.addr_make(&format!("user{}", i)).to_string()).collect();
        let fresh: Vec<String> = (0..3).map(|i| api.addr_make(&format!("fresh{}", i)).to_string()).collect();
        let nowhere = api.addr_make("nowhere").to_string();
        let mut st = MState::default();
        let mut inits: Vec<(Addr, Vec<Coin>)> = vec![];
        for (i, u) in users.iter().enumerate() {
            let b = setup.balances.get(i).copied().unwrap_or([0, 0, 0]);
            let mut coins = vec![];
            for d in 0..3 {
                if b[d] > 0 {
                    coins.push(coin(b[d] as u128, DENOMS[d]));
                    st.bank.entry(u.clone()).or_default().insert(DENOMS[d].to_string(), b[d] as u128);
                }
            }
            inits.push((Addr::unchecked(u.clone()), coins));
        }
        let validators: Vec<String> = (0..setup.validators.min(2)).map(|i| format!("valoper{}", i)).collect();
        let (vals, unbonding_time) = (validators.clone(), setup.unbonding_time);
        struct PoolGen(u64);
        impl cw_multi_test::AddressGenerator for PoolGen {
            fn contract_address(&self, api: &dyn cosmwasm_std::Api, _storage: &mut dyn cosmwasm_std::Storage, _code_id: u64, instance_id: u64) -> cw_multi_test::error::AnyResult<Addr> {
                Ok(Addr::unchecked(model::pool_address(api, self.0 as u8, instance_id)))
            }
        }
        let keeper = if setup.addr_pool > 0 { WasmKeeper::<XMsg, XQuery>::new().with_address_generator(PoolGen(setup.addr_pool as u64)) } else { WasmKeeper::<XMsg, XQuery>::new() };
        let app: TApp = BasicAppBuilder::<XMsg, XQuery>::new_custom().with_api(if setup.api == 1 { FlexApi::Crate(cw_multi_test::MockApiBech32::new(prefix)) } else { FlexApi::Std(MockApi::default().with_prefix(prefix)) }).with_wasm(keeper).with_custom(XModule).build(|router, api, storage| {
            for (a, c) in inits {
                router.bank.init_balance(storage, &a, c).unwrap();
            }
            if !vals.is_empty() {
                // zero rate: rewards (fixed-point) stay out of the tree engine, staking state is whole tokens
                router.staking.setup(storage, cw_multi_test::StakingInfo { bonded_denom: model::BONDED.to_string(), unbonding_time, apr: cosmwasm_std::Decimal::zero() }).unwrap();
                for v in &vals {
                    router.staking.add_validator(api, storage, &cosmwasm_std::testing::mock_env().block, model::validator_obj(v)).unwrap();
                }
            }
        });
        let b = app.block_info();
        st.block = (b.height, b.time.nanos(), b.chain_id);
        let mut w = World { prefix, app, fx: Fixed { codes: BTreeMap::new(), users, fresh, nowhere, validators, unbonding_time: setup.unbonding_time, addr_pool: setup.addr_pool, api: setup.api }, st, ever: BTreeMap::new(), caught_before: false, next_tag: 0 };
        for c in &setup.codes {
            let _ = w.store(c);
        }
        w
    }

    fn kref(&self, k: KRef) -> u64 {
        match k.0 {
            255 => self.fx.codes.keys().last().copied().unwrap_or(0) + 7,
            254 => 0,
            i if self.fx.codes.is_empty() => i as u64 + 1,
            i => *self.fx.codes.keys().nth(i as usize % self.fx.codes.len()).unwrap(),
        }
    }

    /// Stores a code in the real App and in the reference registry. Returns discrepancies (C11).
    pub fn store(&mut self, spec: &CodeSpec) -> Vec<Disc> {
        let mut out = vec![];
        let tag = self.next_tag % MAX_TAGS;
        self.next_tag += 1;
        let own = spec.own_checksum.map(|s| Checksum::generate(&[s, 0x77]));
        self.enter();
        // App::store_code always uses the default codec for the creator
        let default_creator = MockApi::default().addr_make("creator").to_string();
        let next_auto = self.fx.codes.keys().last().copied().unwrap_or(0) + 1;
        // reference verdict
        let (want, creator, src): (Result<u64, ()>, String, Option<u64>) = match &spec.how {
            StoreHow::Plain => (Ok(next_auto), default_creator.clone(), None),
            StoreHow::WithCreator(u) => (Ok(next_auto), self.fx.users[*u as usize % N_USERS].clone(), None),
            StoreHow::WithId(id) => (if *id == 0 || self.fx.codes.contains_key(id) { Err(()) } else { Ok(*id) }, self.fx.users[0].clone(), None),
            StoreHow::Duplicate(k) => {
                let s = self.kref(*k);
                match self.fx.codes.get(&s) {
                    Some(c) => (Ok(next_auto), c.creator.clone(), Some(s)),
                    None => (Err(()), String::new(), None),
                }
            }
        };
        let code = make_code(tag, spec.family, own);
        let got: Result<Result<u64, ()>, String> = catch(|| match &spec.how {
            StoreHow::Plain => Ok(self.app.store_code(code)),
            StoreHow::WithCreator(_) => Ok(self.app.store_code_with_creator(Addr::unchecked(creator.clone()), code)),
            StoreHow::WithId(id) => self.app.store_code_with_id(Addr::unchecked(creator.clone()), *id, code).map_err(|_| ()),
            StoreHow::Duplicate(k) => {
                let s = self.kref(*k);
                self.app.duplicate_code(s).map_err(|_| ())
            }
        });
        let got = match got {
            Ok(g) => g,
            Err(p) => {
                out.push(Disc::new(&["C11"], panic_sig(&p), format!("storing code {:?} panicked: {}", spec, p)));
                return out;
            }
        };
        if got != want {
            out.push(Disc::new(&["C11"], "registry:code-id", format!("storing code {:?} returned {:?}, expected {:?} (ids in use: {:?})", spec, got, want, self.fx.codes.keys().collect::<Vec<_>>())));
            return out;
        }
        if let Ok(id) = got {
            // query the stored code under its id; the checksum is observed, not predicted
            match self.app.wrap().query_wasm_code_info(id) {
                Ok(info) => {
                    if info.creator.as_str() != creator {
                        out.push(Disc::new(&["C11"], "registry:code-creator", format!("CodeInfo({}) reports creator {} but {} was supplied", id, info.creator, creator)));
                    }
                    let (tagv, family) = match src {
                        Some(s) => {
                            let sc = self.fx.codes.get(&s).unwrap().clone();
                            if sc.checksum != info.checksum.as_slice() {
                                out.push(Disc::new(&["C11"], "registry:duplicate-checksum", format!("duplicate {} of code {} has a different checksum", id, s)));
                            }
                            (sc.tag, sc.family)
                        }
                        None => {
                            if let Some(o) = own {
                                if o.as_slice() != info.checksum.as_slice() {
                                    out.push(Disc::new(&["C11", "C20"], "registry:own-checksum", format!("code {} supplies its own checksum but CodeInfo reports another", id)));
                                }
                            }
                            (tag, spec.family)
                        }
                    };
                    self.fx.codes.insert(id, model::CodeInfo { creator, checksum: info.checksum.as_slice().to_vec(), tag: tagv, family });
                }
                Err(e) => out.push(Disc::new(&["C11"], "registry:code-not-queryable", format!("code stored under id {} cannot be queried: {}", id, e))),
            }
        }
        out
    }

    fn real_contract_addrs(&self) -> Vec<String> {
        scan(self.app.storage()).into_iter().filter(|(k, _)| k.starts_with(WASM_CONTRACTS_PREFIX)).map(|(k, _)| String::from_utf8_lossy(&k[WASM_CONTRACTS_PREFIX.len()..]).into_owned()).collect()
    }

    fn observe_real(&self, extra: &BTreeSet<String>) -> Observed {
        let mut o = Observed::default();
        let mut addrs: BTreeSet<String> = self.real_contract_addrs().into_iter().collect();
        addrs.extend(extra.iter().cloned());
        for a in &addrs {
            let addr = Addr::unchecked(a.clone());
            if let Ok(cd) = self.app.contract_data(&addr) {
                o.contracts.insert(a.clone(), (cd.code_id, cd.creator.to_string(), cd.admin.map(|x| x.to_string()), cd.label, cd.created, self.app.dump_wasm_raw(&addr)));
            }
        }
        let mut holders: BTreeSet<String> = addrs;
        holders.extend(self.fx.users.iter().cloned());
        holders.extend(self.fx.fresh.iter().cloned());
        holders.insert(self.fx.nowhere.clone());
        for h in holders {
            #[allow(deprecated)]
            if let Ok(b) = self.app.wrap().query_all_balances(h.clone()) {
                if !b.is_empty() {
                    o.balances.insert(h, b.iter().map(|c| (c.denom.clone(), c.amount.u128())).collect());
                }
            }
        }
        for v in &self.fx.validators {
            // every address that can sign: users, never-seen addresses, contracts
            for d in self.fx.users.iter().chain(self.fx.fresh.iter()).chain(std::iter::once(&self.fx.nowhere)).chain(o.contracts.keys()) {
                if let Ok(Some(fd)) = self.app.wrap().query_delegation(d.clone(), v.clone()) {
                    o.delegations.insert((d.clone(), v.clone()), fd.amount.amount.u128());
                }
            }
        }
        for d in DENOMS {
            if let Ok(c) = self.app.wrap().query_supply(d) {
                o.supply.insert(d.to_string(), c.amount.u128());
            }
        }
        for t in 0..4u32 {
            if let Ok(r) = self.app.wrap().query::<XQueryResp>(&QueryRequest::Custom(XQuery { tag: t })) {
                if let Some(m) = r.marker {
                    o.xmarks.insert(t, m);
                }
            }
        }
        o
    }

    fn views_consistent(&self) -> Option<Disc> {
        // the observation asks AllBalances: the same question twice must get the same answer (C10), and
        // what it lists must agree with the single-denomination query (C09)
        for h in self.fx.users.iter().cloned().chain(self.real_contract_addrs()) {
            #[allow(deprecated)]
            let (a, b) = (self.app.wrap().query_all_balances(h.clone()), self.app.wrap().query_all_balances(h.clone()));
            if let (Ok(a), Ok(b)) = (a, b) {
                if a != b {
                    return Some(Disc::new(&["C10", "C09"], "query:not-idempotent", format!("AllBalances({}) answered {:?} and then {:?}", h, a, b)));
                }
                for c in &a {
                    if let Ok(single) = self.app.wrap().query_balance(h.clone(), c.denom.clone()) {
                        if single.amount != c.amount {
                            return Some(Disc::new(&["C09", "C10"], "query:balance-views-disagree", format!("AllBalances({}) lists {} but Balance says {}", h, c, single)));
                        }
                    }
                }
            }
        }
        for a in self.real_contract_addrs() {
            let addr = Addr::unchecked(a.clone());
            let dump = self.app.dump_wasm_raw(&addr);
            let acc: Vec<(Vec<u8>, Vec<u8>)> = self.app.contract_storage(&addr).range(None, None, cosmwasm_std::Order::Ascending).collect();
            if dump != acc {
                return Some(Disc::new(&["C08"], "views:dump-vs-accessor", format!("dump_wasm_raw({}) lists {} records, App::contract_storage {}: {}", a, dump.len(), acc.len(), diff_scans(&acc, &dump).unwrap_or_default())));
            }
        }
        None
    }

    fn observe_model(st: &MState) -> Observed {
        let mut o = Observed::default();
        for (a, c) in &st.contracts {
            o.contracts.insert(a.clone(), (c.code_id, c.creator.clone(), c.admin.clone(), c.label.clone(), c.created, c.kv.iter().map(|(k, v)| (k.clone(), v.clone())).collect()));
        }
        for (a, m) in &st.bank {
            // plain names that are not addresses can hold coins (the bank takes recipients unchecked)
            // but cannot be asked about; they stay covered by the supply and by what they can spend
            if a == model::STAKING_MODULE || model::api().addr_validate(a).is_err() {
                continue;
            }
            let mut v: Vec<(String, u128)> = m.iter().filter(|(_, x)| **x > 0).map(|(d, x)| (d.clone(), *x)).collect();
            v.sort();
            if !v.is_empty() {
                o.balances.insert(a.clone(), v);
            }
        }
        o.xmarks = st.xmarks.clone();
        for ((d, v), a) in &st.deleg {
            if *a > 0 && model::api().addr_validate(d).is_ok() {
                o.delegations.insert((d.clone(), v.clone()), *a);
            }
        }
        for d in DENOMS {
            o.supply.insert(d.to_string(), st.bank.values().map(|m| m.get(d).copied().unwrap_or(0)).sum());
        }
        o
    }
}

/// What happened in one variant; `discs` are all discrepancies found (with owners).
pub struct Outcome {
    pub discs: Vec<Disc>,
    pub pred_failures: usize,
    pub pred_caught: usize,
    pub pred_ok: bool,
    pub trace_len: usize,
    pub sites: Vec<Site>,
    pub max_depth: usize,
    pub replies: usize,
    pub reply_modes: BTreeSet<(bool, u8)>,
    /// what the real run did (for the determinism check)
    pub actual: String,
    pub kinds: BTreeSet<puppet::Kind>,
}

impl World {
    /// Runs one transactional call (one fault variant) on the real App and in the reference
    /// interpreter, from the current state, and lists all discrepancies.
    pub fn run_variant(&mut self, tx: &Tx, faults: &BTreeSet<Site>) -> Outcome {
        self.run_variant_with(tx, faults, None)
    }

    /// the concrete top-level messages App::execute_multi would receive for this transaction
    pub fn concrete_top(&self, tx: &Tx, faults: &BTreeSet<Site>) -> Option<(String, Vec<CosmosMsg<XMsg>>)> {
        let it = Interp::new(self.st.clone(), &self.fx, tx, faults);
        match &tx.kind {
            TxKind::Exec { sender, msg, .. } => {
                let s = it.aref(*sender);
                let m = it.resolve_top(&s, std::slice::from_ref(msg));
                Some((s, m))
            }
            TxKind::Multi { sender, msgs } => {
                let s = it.aref(*sender);
                let m = it.resolve_top(&s, msgs);
                Some((s, m))
            }
            _ => None,
        }
    }

    /// `concrete`: use these already resolved top-level messages instead of resolving the
    /// transaction's symbolic ones against the current state
    pub fn run_variant_with(&mut self, tx: &Tx, faults: &BTreeSet<Site>, concrete: Option<(String, Vec<CosmosMsg<XMsg>>)>) -> Outcome {
        self.enter();
        let mut discs: Vec<Disc> = vec![];
        let pre_scan = scan(self.app.storage());
        let mut it = Interp::new(self.st.clone(), &self.fx, tx, faults);
        it.ever_written = std::mem::take(&mut self.ever);
        // ---- reference run + the concrete call
        enum Call {
            Multi(Addr, Vec<CosmosMsg<XMsg>>, Via),
            Sudo(String, usize, bool),
            Mint(String, Vec<Coin>),
            Slash(String, u8),
        }
        let (pred_res, call): (Result<Vec<Resp>, ()>, Call) = match &tx.kind {
            TxKind::Exec { via, .. } if concrete.is_some() => {
                let (s, msgs) = concrete.clone().unwrap();
                (it.top_multi_concrete(&s, &msgs), Call::Multi(Addr::unchecked(s), msgs, *via))
            }
            TxKind::Exec { sender, msg, via } => {
                let s = it.aref(*sender);
                let msgs = it.resolve_top(&s, std::slice::from_ref(msg));
                (it.top_multi_concrete(&s, &msgs), Call::Multi(Addr::unchecked(s), msgs, *via))
            }
            TxKind::Multi { sender, msgs } => {
                let s = it.aref(*sender);
                let c = it.resolve_top(&s, msgs);
                (it.top_multi_concrete(&s, &c), Call::Multi(Addr::unchecked(s), c, Via::Multi))
            }
            TxKind::WasmSudo { c, node, via_sudo } => {
                let a = it.cref(*c);
                (it.top_wasm_sudo(&a, *node).map(|r| vec![r]), Call::Sudo(a, *node, *via_sudo))
            }
            TxKind::BankMint { to, coins } => {
                let a = it.aref(*to);
                let c = it.coins(&a, coins);
                let keep = it.st.clone();
                let r = it.top_mint(&a, &c);
                if r.is_err() {
                    it.st = keep;
                }
                (r.map(|r| vec![r]), Call::Mint(a, c))
            }
            TxKind::Slash { v, percent } => {
                let val = it.vref(*v);
                let p = match percent % 3 {
                    0 => 0u8,
                    1 => 100,
                    _ => 150,
                };
                (it.top_slash(&val, p).map(|r| vec![r]), Call::Slash(val, p))
            }
            _ => unreachable!("not a transactional call"),
        };
        install(it.nodes_rt.clone(), it.qnodes_rt.clone(), it.reply_lookup.clone());
        puppet::install_reply_queue(it.reply_queue.clone());
        // ---- real run
        let app = &mut self.app;
        let mut helper_note: Option<Disc> = None;
        let real: Result<Result<Vec<Resp>, String>, String> = catch(|| match &call {
            Call::Multi(sender, msgs, via) => match via {
                Via::Multi => app.execute_multi(sender.clone(), msgs.clone()).map(|v| v.iter().map(resp_of).collect()).map_err(|e| e.to_string()),
                Via::Execute => app.execute(sender.clone(), msgs[0].clone()).map(|r| vec![resp_of(&r)]).map_err(|e| e.to_string()),
                Via::Helper => match &msgs[0] {
                    CosmosMsg::Wasm(WasmMsg::Execute { contract_addr, msg, funds }) => {
                        let m: PMsg = cosmwasm_std::from_json(msg).unwrap();
                        app.execute_contract(sender.clone(), Addr::unchecked(contract_addr.clone()), &m, funds).map(|r| vec![Resp { events: r.events.clone(), data: model::wrap_execute(r.data.as_ref().map(|d| d.to_vec())).filter(|_| r.data.is_some()) }]).map_err(|e| e.to_string())
                    }
                    CosmosMsg::Wasm(WasmMsg::Instantiate { admin, code_id, msg, funds, label }) => {
                        let m: PMsg = cosmwasm_std::from_json(msg).unwrap();
                        app.instantiate_contract(*code_id, sender.clone(), &m, funds, label.clone(), admin.clone()).map(|a| vec![Resp { events: vec![], data: Some(a.to_string().into_bytes()) }]).map_err(|e| e.to_string())
                    }
                    CosmosMsg::Wasm(WasmMsg::Instantiate2 { admin, code_id, msg, funds, label, salt }) => {
                        let m: PMsg = cosmwasm_std::from_json(msg).unwrap();
                        app.instantiate2_contract(*code_id, sender.clone(), &m, funds, label.clone(), admin.clone(), salt.clone()).map(|a| vec![Resp { events: vec![], data: Some(a.to_string().into_bytes()) }]).map_err(|e| e.to_string())
                    }
                    CosmosMsg::Wasm(WasmMsg::Migrate { contract_addr, new_code_id, msg }) => {
                        let m: PMsg = cosmwasm_std::from_json(msg).unwrap();
                        app.migrate_contract(sender.clone(), Addr::unchecked(contract_addr.clone()), &m, *new_code_id).map(|r| vec![resp_of(&r)]).map_err(|e| e.to_string())
                    }
                    CosmosMsg::Bank(cosmwasm_std::BankMsg::Send { to_address, amount }) => app.send_tokens(sender.clone(), Addr::unchecked(to_address.clone()), amount).map(|r| vec![resp_of(&r)]).map_err(|e| e.to_string()),
                    other => app.execute(sender.clone(), other.clone()).map(|r| vec![resp_of(&r)]).map_err(|e| e.to_string()),
                },
            },
            Call::Sudo(addr, node, via_sudo) => {
                if *via_sudo {
                    let m = WasmSudo::new(&Addr::unchecked(addr.clone()), &PMsg { n: *node }).unwrap();
                    app.sudo(SudoMsg::Wasm(m)).map(|r| vec![resp_of(&r)]).map_err(|e| e.to_string())
                } else {
                    app.wasm_sudo(Addr::unchecked(addr.clone()), &PMsg { n: *node }).map(|r| vec![resp_of(&r)]).map_err(|e| e.to_string())
                }
            }
            Call::Mint(to, coins) => app.sudo(SudoMsg::Bank(BankSudo::Mint { to_address: to.clone(), amount: coins.clone() })).map(|r| vec![resp_of(&r)]).map_err(|e| e.to_string()),
            Call::Slash(val, p) => app.sudo(SudoMsg::Staking(cw_multi_test::StakingSudo::Slash { validator: val.clone(), percentage: cosmwasm_std::Decimal::percent(*p as u64) })).map(|r| vec![resp_of(&r)]).map_err(|e| e.to_string()),
        });
        let (trace, _xlog) = take_trace();
        let post_scan = scan(self.app.storage());
        let (act_ok, act_resps, panic) = match real {
            Ok(Ok(r)) => (true, r, None),
            Ok(Err(_)) => (false, vec![], None),
            Err(p) => (false, vec![], Some(p)),
        };
        // predicted responses, adjusted to what the helper forms return
        let mut pred_resps = pred_res.clone().unwrap_or_default();
        if let Call::Multi(_, msgs, Via::Helper) = &call {
            if let Some(r) = pred_resps.first_mut() {
                match &msgs[0] {
                    CosmosMsg::Wasm(WasmMsg::Instantiate { .. }) | CosmosMsg::Wasm(WasmMsg::Instantiate2 { .. }) => {
                        // the helper returns only the address parsed from the response data
                        let addr = r.data.as_deref().and_then(model::instantiate_response_address).unwrap_or_default();
                        *r = Resp { events: vec![], data: Some(addr.into_bytes()) };
                    }
                    CosmosMsg::Wasm(WasmMsg::Execute { .. }) => {
                        // execute_contract unwraps the data; present-but-empty becomes absent
                        if r.data.as_ref().map_or(false, |d| d.is_empty()) {
                            r.data = None;
                            helper_note = None;
                        }
                    }
                    _ => {}
                }
            }
        }
        let act = Actual { ok: act_ok, panic: panic.clone(), responses: act_resps, trace };
        let pred = Pred { funded_fail_before: std::mem::take(&mut it.funded_fail_before), last_fail: it.last_fail.clone(), ever_written: it.ever_written.clone(), fail_before: std::mem::take(&mut it.fail_before), ok: pred_res.is_ok(), responses: pred_resps, trace: std::mem::take(&mut it.trace), whys: std::mem::take(&mut it.whys), failures: it.failures, caught: it.caught, sites: it.sites.clone(), caught_in_earlier_call: self.caught_before };
        self.caught_before |= pred.caught > 0;
        let _ = helper_note;

        // ---- model-free: all-or-nothing
        if let Some(p) = &panic {
            let mut d = Disc::new(&["C01"], panic_sig(p), format!("the call panicked instead of returning Ok or Err: {}", p));
            // "whatever the key bytes" (C08): the call that blew up wrote a key of 64 KiB or more
            if tx.nodes.iter().any(|n| n.writes.iter().any(|w| matches!(w, Write::Set(k, _) | Write::Remove(k) if k.0.len() >= 65536))) {
                d.owners.push("C08");
            }
            d.model_free = true;
            discs.push(d);
        }
        if !act.ok {
            if let Some(d) = diff_scans(&pre_scan, &post_scan) {
                let bank = pre_scan.iter().filter(|(k, _)| k.starts_with(b"\x00\x04bank")).ne(post_scan.iter().filter(|(k, _)| k.starts_with(b"\x00\x04bank")));
                let mut owners = vec!["C01"];
                // "otherwise the failure propagates and the parent fails as a whole" (C02): the failure
                // came from a sub-message or a reply, below an entry point that itself returned Ok
                let entered = pred.trace.iter().filter(|e| e.kind != puppet::Kind::Query).count();
                let single_root = !matches!(&call, Call::Multi(_, msgs, _) if msgs.len() > 1);
                if pred.whys.iter().any(|(_, w)| matches!(w, model::Why::AfterUncaught)) || (single_root && entered >= 2 && pred.failures >= 1 && !pred.ok) {
                    owners.push("C02");
                }
                // "any funds attached ... are returned if the call fails" (C05): bank balances differ
                // after a failed call in whose tree funds were attached somewhere
                if bank && act.trace.iter().any(|e| !e.funds.is_empty()) {
                    owners.push("C05");
                }
                discs.push(Disc { owners, sig: "atomicity:failed-call-changed-state".into(), msg: format!("the call returned Err but chain storage changed: {}", d), model_free: true });
            }
        }
        // ---- model-free: funds told to a callee are funds it holds ("have already been moved from the
        // sender to the callee, match the funds the contract is told about")
        for e in act.trace.iter().filter(|e| matches!(e.kind, puppet::Kind::Execute | puppet::Kind::Instantiate) && !e.funds.is_empty()) {
            if e.own_balance.first().map_or(false, |b| b.0.starts_with('<')) {
                continue; // the balance probe itself failed (contract at a string that is no address)
            }
            let mut told: BTreeMap<&str, u128> = BTreeMap::new();
            for (d, a) in &e.funds {
                *told.entry(d.as_str()).or_insert(0) += a;
            }
            for (d, a) in told {
                let held = e.own_balance.iter().find(|b| b.0 == d).map_or(0, |b| b.1);
                if held < a {
                    discs.push(Disc { owners: vec!["C05"], sig: "funds:told-but-not-held".into(), msg: format!("{} was told it received {}{} but holds only {}{} when its entry point runs", e.contract, a, d, held, d), model_free: true });
                    break;
                }
            }
        }
        // ---- model-free: every event a contract call contributes is attributed to a contract that ran
        // ("carrying the contract address", "with the contract address as first attribute")
        if act.ok {
            let ran: BTreeSet<&str> = act.trace.iter().filter(|e| e.kind != puppet::Kind::Query).map(|e| e.contract.as_str()).collect();
            'events: for r in &act.responses {
                for ev in &r.events {
                    let of_contract = ev.ty == "wasm" || ev.ty.starts_with("wasm-") || matches!(ev.ty.as_str(), "execute" | "instantiate" | "migrate" | "sudo" | "reply");
                    if !of_contract {
                        continue;
                    }
                    let first = ev.attributes.first();
                    if !first.map_or(false, |a| a.key == "_contract_address" && ran.contains(a.value.as_str())) {
                        discs.push(Disc { owners: vec!["C04"], sig: "response:event-without-contract-address".into(), msg: format!("event {:?} does not start with the address of a contract that ran in this call: {:?}", ev.ty, ev.attributes.iter().map(|a| (a.key.as_str(), a.value.as_str())).collect::<Vec<_>>()), model_free: true });
                        break 'events;
                    }
                }
            }
        }
        // ---- top-level message order (execute_multi)
        if let Call::Multi(_, msgs, _) = &call {
            if msgs.len() > 1 {
                let roots: Vec<usize> = msgs.iter().filter_map(|m| match m { CosmosMsg::Wasm(WasmMsg::Execute { msg, .. }) | CosmosMsg::Wasm(WasmMsg::Instantiate { msg, .. }) | CosmosMsg::Wasm(WasmMsg::Instantiate2 { msg, .. }) | CosmosMsg::Wasm(WasmMsg::Migrate { msg, .. }) => cosmwasm_std::from_json::<PMsg>(msg).ok().map(|p| p.n), _ => None }).collect();
                let order = |t: &[puppet::TraceEntry]| -> Vec<usize> { t.iter().filter_map(|e| e.node.filter(|n| roots.contains(n) && e.kind != puppet::Kind::Reply && e.kind != puppet::Kind::Query)).collect() };
                let (po, ao) = (order(&pred.trace), order(&act.trace));
                let mut sp = po.clone();
                sp.sort();
                let mut sa = ao.clone();
                sa.sort();
                if po != ao && sp == sa {
                    discs.push(Disc::new(&["C01"], "multi:order", format!("messages of one execute_multi call ran in order {:?} (root nodes), given order {:?}", ao, po)));
                }
            }
        }
        // ---- differential part
        let top_agree = if pred.ok && act.ok { Some(compare_responses(&pred.responses, &act.responses).is_none()) } else { None };
        let trace_disc = compare_traces(&pred, &act, top_agree);
        let had_trace_disc = trace_disc.is_some();
        if let Some(d) = trace_disc {
            // same calls, different observations, both runs Ok: if the final state is wrong too, the
            // state discrepancy (rollback / persistence) is the likelier root cause and goes first
            if d.sig != "trace:call-sequence" && pred.ok && act.ok {
                let extra: BTreeSet<String> = it.st.contracts.keys().cloned().collect();
                let real_obs = self.observe_real(&extra);
                let model_obs = World::observe_model(&it.st);
                // the observation goes through the state dump: if the dump and the accessor disagree about a
                // contract, that is a disagreement of views (C08), not a wrong state
                if let Some(d) = self.views_consistent() {
                    discs.push(d);
                }
                let mut sd = compare_state(&model_obs, &real_obs, pred.failures, &it.ever_written);
                if pred.ok && act.ok {
                    // "returns Ok with every effect of the whole message tree persisted" (C01): the call
                    // succeeded as it should, but what it left behind is not what the tree produces
                    for d in sd.iter_mut() {
                        if !d.owners.contains(&"C01") {
                            d.owners.push("C01");
                        }
                    }
                }
                if !pred.ok && !act.ok {
                    // the call failed (and root storage is unchanged, or the model-free finding above says
                    // otherwise), yet what App's accessors and queries report is not the state before the
                    // call: something outside the store was left behind (C01), and "a query issued through
                    // App observes exactly the committed state" (C10) does not hold
                    for d in sd.iter_mut() {
                        for o in ["C01", "C10"] {
                            if !d.owners.contains(&o) {
                                d.owners.push(o);
                            }
                        }
                    }
                }
                if pred.whys.iter().any(|(_, w)| matches!(w, model::Why::AfterMalformed)) {
                    // a malformed response "makes that call fail, with the same rollback as any other
                    // contract error" (C13): one was met in this tree and the state is not rolled back right
                    for d in sd.iter_mut() {
                        if !d.owners.contains(&"C13") {
                            d.owners.push("C13");
                        }
                    }
                }
                discs.extend(sd);
            }
            discs.push(d);
        }
        if !had_trace_disc && panic.is_none() {
            if pred.ok != act.ok {
                let root_leaf: Option<&'static str> = match &tx.kind {
                    TxKind::Exec { msg, .. } => match msg {
                        Msg::UpdateAdmin { .. } | Msg::ClearAdmin { .. } | Msg::Migrate { .. } => Some("C12"),
                        Msg::Inst { .. } => Some("C11"),
                        Msg::Send { .. } | Msg::Burn { .. } => Some("C09"),
                        Msg::Custom { .. } => Some("C17"),
                        _ => None,
                    },
                    TxKind::BankMint { .. } => Some("C09"),
                    _ => None,
                };
                let mut owners = okerr_owners(&pred, act.ok, root_leaf);
                if !act.ok {
                    // the real call failed although nothing fails in the reference: if an entered node
                    // returned a boundary-case (but valid) attribute key or event type, a validation
                    // that is stricter than the stated rule is the likely cause
                    let plain = |s: &str| !s.is_empty() && s.chars().all(|c| c.is_ascii_alphanumeric() || c == '.');
                    let edgy = pred.trace.iter().filter_map(|e| e.node).filter_map(|n| tx.nodes.get(n)).any(|n| n.attrs.iter().any(|(k, _)| !plain(k)) || n.events.iter().any(|(t, a)| !plain(t) || t.len() < 3 || a.iter().any(|(k, _)| !plain(k))));
                    if edgy {
                        owners.push("C13");
                    }
                }
                discs.push(Disc { owners, sig: if act.ok { "result:ok-instead-of-err".into() } else { "result:err-instead-of-ok".into() }, msg: format!("the call returned {} but the sub-message rules give {} ({} failure(s) met, {} caught)", if act.ok { "Ok" } else { "Err" }, if pred.ok { "Ok" } else { "Err" }, pred.failures, pred.caught), model_free: false });
            } else {
                // state first: a wrong state is the likelier root cause of a wrong response
                let extra: BTreeSet<String> = it.st.contracts.keys().cloned().collect();
                let real_obs = self.observe_real(&extra);
                let model_obs = World::observe_model(&it.st);
                // the observation goes through the state dump: if the dump and the accessor disagree about a
                // contract, that is a disagreement of views (C08), not a wrong state
                if let Some(d) = self.views_consistent() {
                    discs.push(d);
                }
                let mut sd = compare_state(&model_obs, &real_obs, pred.failures, &it.ever_written);
                if pred.ok && act.ok {
                    // "returns Ok with every effect of the whole message tree persisted" (C01): the call
                    // succeeded as it should, but what it left behind is not what the tree produces
                    for d in sd.iter_mut() {
                        if !d.owners.contains(&"C01") {
                            d.owners.push("C01");
                        }
                    }
                }
                if !pred.ok && !act.ok {
                    // the call failed (and root storage is unchanged, or the model-free finding above says
                    // otherwise), yet what App's accessors and queries report is not the state before the
                    // call: something outside the store was left behind (C01), and "a query issued through
                    // App observes exactly the committed state" (C10) does not hold
                    for d in sd.iter_mut() {
                        for o in ["C01", "C10"] {
                            if !d.owners.contains(&o) {
                                d.owners.push(o);
                            }
                        }
                    }
                }
                if pred.whys.iter().any(|(_, w)| matches!(w, model::Why::AfterMalformed)) {
                    // a malformed response "makes that call fail, with the same rollback as any other
                    // contract error" (C13): one was met in this tree and the state is not rolled back right
                    for d in sd.iter_mut() {
                        if !d.owners.contains(&"C13") {
                            d.owners.push("C13");
                        }
                    }
                }
                discs.extend(sd);
                if act.ok {
                    if let Some(d) = compare_responses(&pred.responses, &act.responses) {
                        discs.push(d);
                    }
                }
            }
        }
        // ---- model-free, last (it never decides who owns a divergence from the reference): a contract that
        // cannot read its own writes back ("what the contract itself reads back ... are the same data")
        if let Some(e) = act.trace.iter().find(|e| !e.complaint.0.is_empty()) {
            discs.push(Disc { owners: vec!["C08"], sig: "views:own-writes-not-read-back".into(), msg: format!("{} ({:?}, node {:?}): {}", e.contract, e.kind, e.node, e.complaint.0), model_free: true });
        }
        let mut reply_modes = BTreeSet::new();
        let mut replies = 0;
        for e in &pred.trace {
            if let Some(r) = &e.reply {
                replies += 1;
                reply_modes.insert((r.ok, 0u8));
            }
        }
        let actual = format!("ok={} panic={:?} responses={:?} trace={:?} storage={:016x}", act.ok, act.panic, act.responses, act.trace, crate::util::fnv(&post_scan.iter().flat_map(|(k, v)| [k.as_slice(), b"=", v.as_slice(), b";"].concat()).collect::<Vec<u8>>()));
        let kinds: BTreeSet<puppet::Kind> = pred.trace.iter().map(|e| e.kind).collect();
        let out = Outcome { kinds, actual, discs, pred_failures: pred.failures, pred_caught: pred.caught, pred_ok: pred.ok, trace_len: pred.trace.len(), sites: pred.sites.clone(), max_depth: it.max_depth, replies, reply_modes };
        self.ever = std::mem::take(&mut it.ever_written);
        self.st = it.st;
        out
    }

    pub fn apply_block(&mut self, dh: u64, dt: u64, set: bool, chain: Option<u8>) -> Vec<Disc> {
        self.enter();
        let mut b = self.app.block_info();
        b.height += dh;
        b.time = b.time.plus_seconds(dt);
        if let Some(c) = chain {
            b.chain_id = format!("chain-{}", c);
        }
        let nb: BlockInfo = b.clone();
        let r = catch(|| {
            if set {
                self.app.set_block(nb.clone());
            } else {
                let nb2 = nb.clone();
                self.app.update_block(move |blk| *blk = nb2.clone());
            }
        });
        let mut out = vec![];
        if let Err(p) = r {
            out.push(Disc::new(&["C14"], panic_sig(&p), format!("block update panicked: {}", p)));
        }
        self.st.block = (b.height, b.time.nanos(), b.chain_id.clone());
        model::process_queue(&mut self.st);
        let now = self.app.block_info();
        if now != b {
            out.push(Disc::new(&["C05"], "block:not-applied", format!("block_info() is {:?} after setting {:?}", now, b)));
        }
        let _ = Timestamp::from_seconds(0);
        out
    }
}

// ---------------------------------------------------------------- Check

pub struct TreeCheck {
    id: String,
    tier: Tier,
    profile: gen::Profile,
}

fn fault_enumerating(id: &str) -> bool {
    matches!(id, "C01" | "C02" | "C13")
}

pub fn hint_contracts() -> Vec<String> {
    (0..3).map(|i| model::classic_address(1, i)).collect()
}

impl TreeCheck {
    fn variants(&self, sites: &[Site]) -> Vec<BTreeSet<Site>> {
        let mut uniq: Vec<Site> = vec![];
        for s in sites {
            if !uniq.contains(s) {
                uniq.push(s.clone());
            }
        }
        // a call with very many failure sites (the storm template has about eighty) is re-run for an evenly
        // spaced selection of thirty of them
        if uniq.len() > 30 {
            let n = uniq.len();
            uniq = (0..30).map(|i| uniq[i * n / 30].clone()).collect();
        }
        let mut v: Vec<BTreeSet<Site>> = uniq.iter().map(|s| [s.clone()].into_iter().collect()).collect();
        // two deterministic multi-site sets
        if uniq.len() >= 3 {
            v.push([uniq[0].clone(), uniq[uniq.len() / 2].clone()].into_iter().collect());
            v.push([uniq[1].clone(), uniq[uniq.len() - 1].clone()].into_iter().collect());
        }
        v
    }

    fn run_history(&self, h: &History, cx: &mut Cx) -> Result<(), Failure> {
        let id = self.id.as_str();
        let mut w = World::new(&h.setup);
        let mut nontrivial = false;
        let report = |discs: &[Disc], txi: usize, what: &str, cx: &mut Cx| -> Result<bool, Failure> {
            // Ok(true) = continue the history; Ok(false) = stop (diverged for a reason owned by another property)
            // the first discrepancy of a call decides who owns it (later ones are likely
            // consequences); model-free findings are always reported to their owner
            let first_owned = discs.first().filter(|d| d.owners.contains(&id));
            if let Some(d) = first_owned.or_else(|| discs.iter().find(|d| d.model_free && d.owners.contains(&id))) {
                return Err(Failure::new(format!("{}:{}", id, d.sig), format!("tx {} ({}): {}", txi, what, d.msg)));
            }
            if let Some(d) = discs.first() {
                cx.label(&format!("gated:owned-by-{}", d.owners.join("+")));
                return Ok(false);
            }
            Ok(true)
        };
        for (txi, tx) in h.txs.iter().enumerate() {
            match &tx.kind {
                TxKind::Store(spec) => {
                    let d = w.store(spec);
                    cx.label("tx:store-code");
                    if !report(&d, txi, "store code", cx)? {
                        return Ok(());
                    }
                }
                TxKind::Block { dh, dt, set, chain } => {
                    let d = w.apply_block(*dh, *dt, *set, *chain);
                    cx.label("tx:block");
                    if !report(&d, txi, "block update", cx)? {
                        return Ok(());
                    }
                }
                TxKind::Queries(qs) => {
                    let d = self.app_queries(&mut w, tx, qs);
                    cx.label("tx:app-queries");
                    if !report(&d, txi, "App-level queries", cx)? {
                        return Ok(());
                    }
                }
                _ => {
                    let pre_real = scan(w.app.storage());
                    let pre_model = w.st.clone();
                    let pre_ever = w.ever.clone();
                    let none = BTreeSet::new();
                    let mut variants: Vec<BTreeSet<Site>> = vec![];
                    if fault_enumerating(id) {
                        // dry run of the reference only, to learn which failure sites are reached
                        let mut it = Interp::new(w.st.clone(), &w.fx, tx, &none);
                        match &tx.kind {
                            TxKind::Exec { sender, msg, .. } => {
                                let s = it.aref(*sender);
                                let m = it.resolve_top(&s, std::slice::from_ref(msg));
                                let _ = it.top_multi_concrete(&s, &m);
                            }
                            TxKind::Multi { sender, msgs } => {
                                let s = it.aref(*sender);
                                let m = it.resolve_top(&s, msgs);
                                let _ = it.top_multi_concrete(&s, &m);
                            }
                            TxKind::WasmSudo { c, node, .. } => {
                                let a = it.cref(*c);
                                let _ = it.top_wasm_sudo(&a, *node);
                            }
                            _ => {}
                        }
                        variants = self.variants(&it.sites);
                    }
                    variants.push(none.clone()); // the scripted run goes last: the history continues from it
                    let nvar = variants.len();
                    for (vi, faults) in variants.iter().enumerate() {
                        if vi > 0 {
                            restore(w.app.storage_mut(), &pre_real);
                            w.st = pre_model.clone();
                            w.ever = pre_ever.clone();
                        }
                        let mut out = w.run_variant(tx, faults);
                        // model-free: a failed call leaves NOTHING behind, so repeating it from the restored
                        // store must go exactly the same way (same result, same invocations, same storage).
                        // A difference means the first attempt left state outside the store.
                        if id == "C01" && out.actual.starts_with("ok=false panic=None") && out.discs.iter().all(|d| !d.model_free) {
                            let first = out.actual.clone();
                            restore(w.app.storage_mut(), &pre_real);
                            w.st = pre_model.clone();
                            w.ever = pre_ever.clone();
                            let again = w.run_variant(tx, faults);
                            if again.actual != first {
                                let cut = |s: &str| s.chars().take(500).collect::<String>();
                                out.discs.insert(0, Disc { owners: vec!["C01"], sig: "atomicity:failed-call-left-hidden-state".into(), msg: format!("the call returned Err and root storage was unchanged, yet repeating the same call from the same store went differently: first {} | again {}", cut(&first), cut(&again.actual)), model_free: true });
                            }
                            cx.label("calls:failed-call-repeated");
                        }
                        // A discrepancy in a multi-message call that does not show when the same messages
                        // are executed one by one (App::execute) from the same pre-state is specific to
                        // execute_multi (order / arity / sharing of one cache) and belongs to C01 alone.
                        if let TxKind::Multi { sender, msgs } = &tx.kind {
                            let model_free_first = out.discs.first().map_or(false, |d| d.model_free);
                            if msgs.len() >= 2 && !out.discs.is_empty() && !model_free_first && !faults.iter().any(|f| matches!(f, Site::Root(_))) {
                                restore(w.app.storage_mut(), &pre_real);
                                w.st = pre_model.clone();
                                w.ever = pre_ever.clone();
                                // the very same concrete messages (resolved against the pre-state, as
                                // execute_multi received them), each through App::execute
                                let mut clean = false;
                                if let Some((s, concrete)) = w.concrete_top(tx, faults) {
                                    clean = true;
                                    for (m, c) in msgs.iter().zip(concrete.into_iter()) {
                                        let single = Tx { kind: TxKind::Exec { sender: *sender, msg: m.clone(), via: Via::Execute }, nodes: tx.nodes.clone(), qnodes: tx.qnodes.clone() };
                                        let o = w.run_variant_with(&single, faults, Some((s.clone(), vec![c])));
                                        // conclusive only if every message succeeds alone and behaves as specified
                                        if !o.discs.is_empty() || !o.pred_ok {
                                            clean = false;
                                            break;
                                        }
                                    }
                                }
                                if clean {
                                    for d in out.discs.iter_mut() {
                                        d.owners = vec!["C01"];
                                        d.sig = format!("multi:differs-from-one-by-one:{}", d.sig);
                                        d.msg = format!("{} (the same messages executed one by one from the same state behave as specified)", d.msg);
                                    }
                                }
                            }
                        }
                        cx.label("calls");
                        if vi + 1 < nvar {
                            cx.label("calls:fault-variant");
                        }
                        if out.pred_failures > 0 {
                            cx.label(if out.pred_caught > 0 { "tree:with-caught-failure" } else { "tree:with-failure" });
                        }
                        cx.label(&format!("tree:depth:{}", out.max_depth));
                        cx.label(&format!("tree:entered-calls:{}", match out.trace_len { 0 => "0", 1 => "1", 2..=3 => "2-3", 4..=7 => "4-7", 8..=15 => "8-15", _ => "16+" }));
                        cx.label(&format!("tx:{}", kind_name(&tx.kind)));
                        if out.trace_len == 0 {
                            if let TxKind::Exec { msg, .. } = &tx.kind {
                                cx.label(&format!("zero:{}", match msg { Msg::Exec { .. } => "exec", Msg::Inst { .. } => "inst", Msg::Migrate { .. } => "migrate", Msg::Send { .. } | Msg::Burn { .. } => "bank", Msg::Custom { .. } => "custom", _ => "admin" }));
                            }
                        }
                        if self.nontrivial_rule(tx, &out) {
                            nontrivial = true;
                            cx.label("calls:nontrivial");
                        }
                        let what = format!("{}{}", kind_name(&tx.kind), if faults.is_empty() { String::new() } else { format!(", injected faults {:?}", faults) });
                        if !report(&out.discs, txi, &what, cx)? {
                            return Ok(());
                        }
                        if id == "C08" {
                            if w.st.contracts.values().any(|c| c.kv.len() > 100) {
                                cx.label("contract:holds->100-entries");
                            }
                            let d = views_agree(&w);
                            if !report(&d, txi, &what, cx)? {
                                return Ok(());
                            }
                        }
                    }
                }
            }
        }
        if id == "C10" {
            let d = query_storm(&mut w);
            cx.label("probe:failing-query-storm");
            if !report(&d, h.txs.len(), "a run of failing queries between two identical queries", cx)? {
                return Ok(());
            }
        }
        if id == "C08" {
            let d = namespace_probe(&mut w);
            cx.label("probe:address-variants");
            if !report(&d, h.txs.len(), "write through contract_storage_mut under a variant of a contract's address", cx)? {
                return Ok(());
            }
        }
        if nontrivial {
            cx.mark_nontrivial();
        }
        Ok(())
    }

    fn nontrivial_rule(&self, tx: &Tx, out: &Outcome) -> bool {
        match self.id.as_str() {
            "C01" => (out.pred_failures > 0 && out.trace_len >= 2) || matches!(&tx.kind, TxKind::Multi { msgs, .. } if msgs.len() >= 2) || (matches!(tx.kind, TxKind::WasmSudo { .. }) && out.pred_failures > 0),
            "C02" => out.pred_caught > 0 && out.trace_len >= 3,
            "C03" => out.replies >= 2 && out.trace_len >= 4,
            "C04" => out.pred_ok && out.max_depth >= 1 && out.replies >= 1,
            "C05" => out.trace_len >= 3,
            "C08" => out.trace_len >= 2,
            "C10" => out.trace_len >= 2,
            "C13" => tx.nodes.iter().any(model::malformed) && out.trace_len >= 1,
            "C11" => out.kinds.contains(&puppet::Kind::Instantiate) && (out.pred_failures > 0 || out.trace_len >= 2),
            "C12" => out.kinds.contains(&puppet::Kind::Migrate) || (out.pred_ok && matches!(&tx.kind, TxKind::Exec { msg: Msg::UpdateAdmin { .. } | Msg::ClearAdmin { .. }, .. })),
            _ => out.trace_len >= 2,
        }
    }

    /// TxKind::Queries: purity, idempotence, agreement with the committed state (C10)
    pub fn app_queries(&self, w: &mut World, tx: &Tx, qs: &[AppQuery]) -> Vec<Disc> {
        w.enter();
        let mut out = vec![];
        let none = BTreeSet::new();
        for q in qs {
            let before = scan(w.app.storage());
            let mut it = Interp::new(w.st.clone(), &w.fx, tx, &none);
            match q {
                AppQuery::Q(spec) => {
                    let view = w.st.clone();
                    let want = it.eval_query(&view, spec, 0);
                    let req = cosmwasm_std::to_json_vec(&it.resolve_query(spec)).unwrap();
                    install(BTreeMap::new(), it.qnodes_rt.clone(), BTreeMap::new());
                    let r1 = catch(|| puppet::raw_query(&w.app, &req));
                    let (t1, _) = take_trace();
                    install(BTreeMap::new(), it.qnodes_rt.clone(), BTreeMap::new());
                    let r2 = catch(|| puppet::raw_query(&w.app, &req));
                    let (t2, _) = take_trace();
                    match (r1, r2) {
                        (Ok(a), Ok(b)) => {
                            if a != b || t1 != t2 {
                                out.push(Disc::new(&["C10"], "query:not-idempotent", format!("query {:?} answered {:?} then {:?}", spec, a, b)));
                            }
                            if a != want {
                                out.push(Disc::new(&["C10"], "query:app-level-answer", format!("query {:?} through App answered {:?}, committed state gives {:?}", spec, a, want)));
                            } else if t1 != it.trace {
                                out.push(Disc::new(&["C10"], "query:app-level-trace", format!("query {:?}: the query entry points observed {:?}, committed state gives {:?}", spec, t1, it.trace)));
                            }
                        }
                        (Err(p), _) | (_, Err(p)) => out.push(Disc::new(&["C10"], panic_sig(&p), format!("query {:?} panicked: {}", spec, p))),
                    }
                }
                AppQuery::ContractData(c) => {
                    let a = it.cref(*c);
                    let r1 = w.app.contract_data(&Addr::unchecked(a.clone())).ok();
                    let r2 = w.app.contract_data(&Addr::unchecked(a.clone())).ok();
                    if r1 != r2 {
                        out.push(Disc::new(&["C10"], "query:not-idempotent", "contract_data answered differently twice".to_string()));
                    }
                    let want = w.st.contracts.get(&a).map(|c| (c.code_id, c.creator.clone(), c.admin.clone(), c.label.clone(), c.created));
                    let got = r1.map(|c| (c.code_id, c.creator.to_string(), c.admin.map(|x| x.to_string()), c.label, c.created));
                    if want != got {
                        out.push(Disc::new(&["C10", "C11", "C12"], "query:contract-data", format!("contract_data({}) = {:?}, committed state gives {:?}", a, got, want)));
                    }
                }
                AppQuery::Dump(c) => {
                    let a = it.cref(*c);
                    let addr = Addr::unchecked(a.clone());
                    let d1 = w.app.dump_wasm_raw(&addr);
                    let d2: Vec<(Vec<u8>, Vec<u8>)> = w.app.contract_storage(&addr).range(None, None, cosmwasm_std::Order::Ascending).collect();
                    let want: Vec<(Vec<u8>, Vec<u8>)> = w.st.contracts.get(&a).map(|c| c.kv.iter().map(|(k, v)| (k.clone(), v.clone())).collect()).unwrap_or_default();
                    if d1 != d2 {
                        out.push(Disc::new(&["C08"], "views:dump-vs-accessor", format!("dump_wasm_raw and contract_storage disagree for {}", a)));
                    }
                    if d1 != want {
                        out.push(Disc::new(&["C08", "C10"], "views:dump", format!("dump_wasm_raw({}) differs from the contract's own writes: {:?}", a, diff_scans(&want, &d1))));
                    }
                }
            }
            let after = scan(w.app.storage());
            if let Some(d) = diff_scans(&before, &after) {
                out.push(Disc::new(&["C10"], "query:changed-state", format!("query {:?} changed chain storage: {}", q, d)));
            }
        }
        out
    }
}

/// C08: what a contract reads, a raw query, dump_wasm_raw and contract_storage show the same data,
/// and every other owner's part of the root store is what the reference expects
fn views_agree(w: &World) -> Vec<Disc> {
    let mut out = vec![];
    for (addr, ci) in &w.st.contracts {
        let a = Addr::unchecked(addr.clone());
        let want: Vec<(Vec<u8>, Vec<u8>)> = ci.kv.iter().map(|(k, v)| (k.clone(), v.clone())).collect();
        let dump = w.app.dump_wasm_raw(&a);
        let acc: Vec<(Vec<u8>, Vec<u8>)> = w.app.contract_storage(&a).range(None, None, cosmwasm_std::Order::Ascending).collect();
        if dump != want {
            out.push(Disc::new(&["C08"], "views:dump", format!("dump_wasm_raw({}) differs from what the contract wrote: {:?}", addr, diff_scans(&want, &dump))));
            break;
        }
        if acc != want {
            out.push(Disc::new(&["C08"], "views:accessor", format!("contract_storage({}) differs from what the contract wrote: {:?}", addr, diff_scans(&want, &acc))));
            break;
        }
        let empty = BTreeSet::new();
        // a raw query validates the address; contracts at strings that are not addresses (adjacent
        // pools) are covered by the dump and the accessor above
        if model::api().addr_validate(addr).is_err() {
            continue;
        }
        for k in w.ever.get(addr).unwrap_or(&empty) {
            let got = w.app.wrap().query_wasm_raw(addr.clone(), k.clone()).ok().flatten();
            let want_v = ci.kv.get(k).cloned();
            // an absent key and an empty answer are the same thing for a raw query
            if got.clone().filter(|v| !v.is_empty()) != want_v {
                out.push(Disc::new(&["C08"], "views:raw-query", format!("raw query of key {} at {} returns {:?} but the contract's storage holds {:?}", crate::util::hexs(k), addr, got.as_deref().map(crate::util::hexs), want_v.as_deref().map(crate::util::hexs))));
                return out;
            }
        }
    }
    out
}

/// C10: queries are pure - also the ones that fail. A smart query, a contract-info query and a
/// balance query are asked, then a dozen queries that must fail (smart / raw / info queries about an
/// address without contract, a balance query about a string that is no address), then the first
/// three again: same answers, and the root store untouched.
fn query_storm(w: &mut World) -> Vec<Disc> {
    use cosmwasm_std::{BankQuery, WasmQuery};
    let mut out = vec![];
    w.enter();
    let Some(target) = w.st.order.iter().find(|a| model::api().addr_validate(a).is_ok()).cloned() else {
        return out;
    };
    let smart = |addr: &str| -> Vec<u8> { cosmwasm_std::to_json_vec(&QueryRequest::<XQuery>::Wasm(WasmQuery::Smart { contract_addr: addr.to_string(), msg: cosmwasm_std::to_json_binary(&PMsg { n: 424242 }).unwrap() })).unwrap() };
    let info = |addr: &str| -> Vec<u8> { cosmwasm_std::to_json_vec(&QueryRequest::<XQuery>::Wasm(WasmQuery::ContractInfo { contract_addr: addr.to_string() })).unwrap() };
    let bal = |addr: &str| -> Vec<u8> { cosmwasm_std::to_json_vec(&QueryRequest::<XQuery>::Bank(BankQuery::Balance { address: addr.to_string(), denom: DENOMS[0].to_string() })).unwrap() };
    let probes = vec![smart(&target), info(&target), bal(&target)];
    let root_before = scan(w.app.storage());
    install(BTreeMap::new(), BTreeMap::new(), BTreeMap::new());
    let ask = |w: &World, reqs: &[Vec<u8>]| -> Result<Vec<puppet::QRes>, String> { catch(|| reqs.iter().map(|r| puppet::raw_query(&w.app, r)).collect()) };
    let first = match ask(w, &probes) {
        Ok(a) => a,
        Err(p) => {
            out.push(Disc::new(&["C10"], panic_sig(&p), format!("a query panicked: {}", p)));
            return out;
        }
    };
    let nowhere = w.fx.nowhere.clone();
    let storm: Vec<Vec<u8>> = (0..12).flat_map(|_| vec![smart(&nowhere), info(&nowhere), smart("not an address"), bal("not an address")]).collect();
    match ask(w, &storm) {
        Ok(answers) => {
            if let Some(i) = answers.iter().position(|a| a.is_ok()) {
                out.push(Disc::new(&["C10"], "query:nonexistent-answered", format!("query number {} about an address without contract / a string that is no address was answered {:?}", i, answers[i])));
                return out;
            }
        }
        Err(p) => {
            out.push(Disc::new(&["C10"], panic_sig(&p), format!("a failing query panicked: {}", p)));
            return out;
        }
    }
    let second = ask(w, &probes).unwrap_or_default();
    let _ = take_trace();
    if first != second {
        out.push(Disc::new(&["C10"], "query:not-idempotent", format!("the same three queries (smart, contract info, balance of {}) answered {:?}, and after 48 failing queries {:?}", target, first, second)));
        return out;
    }
    if let Some(d) = diff_scans(&root_before, &scan(w.app.storage())) {
        out.push(Disc::new(&["C10"], "query:changed-state", format!("queries changed chain storage: {}", d)));
    }
    out
}

/// C08: the key space is a function of the exact address. Storage written (through App's accessor)
/// under a string that merely resembles a contract's address - other letter case, one character
/// more or less, a separator appended, the empty string - is a different key space: no contract's
/// data changes, exactly one root key appears, the accessor, the dump and the raw view of that
/// address show it, and removing it restores the root store byte for byte.
fn namespace_probe(w: &mut World) -> Vec<Disc> {
    let mut out = vec![];
    let existing: Vec<String> = w.st.contracts.keys().cloned().collect();
    let mut variants: Vec<String> = vec![String::new()];
    for a in existing.iter().take(3) {
        variants.push(a.to_uppercase());
        let mut c = a.clone();
        if let Some(f) = c.get_mut(0..1) {
            f.make_ascii_uppercase();
        }
        variants.push(c);
        variants.push(format!("{}\0", a));
        variants.push(format!("{}/", a));
        variants.push(format!("{} ", a));
        variants.push(a[..a.len() - 1].to_string());
        variants.push(format!("{}{}", a, a));
    }
    variants.retain(|v| !existing.contains(v));
    variants.sort();
    variants.dedup();
    let dumps = |w: &World| -> Vec<Vec<(Vec<u8>, Vec<u8>)>> { existing.iter().map(|a| w.app.dump_wasm_raw(&Addr::unchecked(a.clone()))).collect() };
    for v in variants {
        let x = Addr::unchecked(v.clone());
        let root_before = scan(w.app.storage());
        let dumps_before = dumps(w);
        let foreign_before = w.app.dump_wasm_raw(&x);
        if !foreign_before.is_empty() {
            out.push(Disc::new(&["C08"], "namespace:variant-address-sees-data", format!("no contract lives at {:?}, yet its key space lists {} entries (a contract's data shows up under another address)", v, foreign_before.len())));
            return out;
        }
        w.app.contract_storage_mut(&x).set(b"probe", b"\x01");
        let dumps_after = dumps(w);
        if dumps_after != dumps_before {
            let which = existing.iter().zip(dumps_before.iter().zip(dumps_after.iter())).find(|(_, (b, a))| b != a).map(|(a, _)| a.clone()).unwrap_or_default();
            out.push(Disc::new(&["C08"], "namespace:write-under-variant-address-visible", format!("a write into the key space of {:?} changed the storage of the contract at {:?}", v, which)));
            w.app.contract_storage_mut(&x).remove(b"probe");
            return out;
        }
        let root_after = scan(w.app.storage());
        let added: Vec<&(Vec<u8>, Vec<u8>)> = root_after.iter().filter(|e| !root_before.contains(e)).collect();
        if added.len() != 1 || root_after.len() != root_before.len() + 1 {
            out.push(Disc::new(&["C08"], "namespace:write-changed-other-keys", format!("one write into the key space of {:?} changed the root store by {:?}", v, diff_scans(&root_before, &root_after))));
            return out;
        }
        let got = w.app.contract_storage(&x).get(b"probe");
        let dump = w.app.dump_wasm_raw(&x);
        if got != Some(vec![1]) || dump != vec![(b"probe".to_vec(), vec![1u8])] {
            out.push(Disc::new(&["C08"], "views:accessor", format!("after one write into the key space of {:?} the accessor reads {:?} and the dump lists {:?}", v, got, dump)));
            return out;
        }
        w.app.contract_storage_mut(&x).remove(b"probe");
        if scan(w.app.storage()) != root_before {
            out.push(Disc::new(&["C08"], "namespace:remove-changed-other-keys", format!("removing the key written under {:?} did not restore the root store", v)));
            return out;
        }
    }
    out
}

fn kind_name(k: &TxKind) -> &'static str {
    match k {
        TxKind::Exec { via: Via::Execute, .. } => "execute",
        TxKind::Exec { via: Via::Multi, .. } => "execute_multi[1]",
        TxKind::Exec { via: Via::Helper, .. } => "executor helper",
        TxKind::Multi { .. } => "execute_multi",
        TxKind::WasmSudo { via_sudo: false, .. } => "wasm_sudo",
        TxKind::WasmSudo { via_sudo: true, .. } => "sudo(Wasm)",
        TxKind::BankMint { .. } => "sudo(Bank mint)",
        TxKind::Slash { .. } => "sudo(Staking slash)",
        TxKind::Block { .. } => "block",
        TxKind::Queries(_) => "queries",
        TxKind::Store(_) => "store",
    }
}

const RULES: &[(&str, &str, &str)] = &[
    ("C01", "fault_enumeration", "generated histories (setup + 3-14 calls: execute / execute_multi with 0-4 messages / wasm_sudo / sudo / Executor helpers / block updates / code stores) whose calls are roots of generated message trees (depth<=4/6, <=14/40 nodes: contract calls, instantiate(2), migrate, admin changes, bank send/burn, custom-module calls, every reply_on mode); every call is run once per reached failure site with that site flipped (plus two multi-site sets) from the identical pre-state, then as scripted. Oracle: Err/panic => root storage byte-identical and the same call repeated from the restored store goes the same way; Ok => trace, responses and full observable state equal the reference interpreter; execute_multi order/arity. Non-trivial call: a failing tree that entered >=2 contract calls, or execute_multi with >=2 messages, or a failing sudo; distinct = distinct serialised history"),
    ("C02", "fault_enumeration", "same generator biased to failures and catching modes; every call run once per reached failure site (flipped) plus as scripted; oracle: Ok/Err, invocation trace (incl. rolled-back calls and each node's full storage scan at entry) and post-state equal the reference interpreter whose rollback is clone/restore. Non-trivial call: a failure caught by reply below >=3 entered calls; distinct = distinct serialised history"),
    ("C03", "exploration", "same generator biased to replying modes, ids from {0,1,small,u64::MAX,random} with duplicates, payloads 2-258 bytes; oracle: the reply entries of the complete out-of-band trace (position, contract, id, payload, ok/err, carried events/data) equal the reference. Non-trivial call: >=2 replies in a trace of >=4 entries; distinct = distinct serialised history"),
    ("C04", "exploration", "same generator with attributes/events/data on most nodes; oracle: AppResponse events and data of every successful call (and the events/data inside every Reply) equal the reference composition. Non-trivial call: successful tree of depth>=1 with >=1 reply; distinct = distinct serialised history"),
    ("C05", "exploration", "same generator biased to attached funds relative to balances (0, half, all, all+1, zero coins), block updates and sudo/migrate entry points; oracle: sender, funds, env.contract.address, env.block and own balance at entry of every trace entry equal the reference; overdraft => callee absent from the trace; balances afterwards. Non-trivial call: trace of >=3 entries; distinct = distinct serialised history"),
    ("C08", "exploration", "same generator with hostile storage keys (raw prefixes of bank/wasm/staking, other contracts' namespaces, empty key, equal keys across contracts); oracle: every node's full scan at entry equals its own contract's expected storage, raw queries / dump_wasm_raw / contract_storage agree, no other partition of the root store changes; at the end of every history, writes through contract_storage_mut under variants of the contracts' addresses (other letter case, one character more or less, separator or NUL appended, doubled, empty) must land in a key space of their own. Non-trivial call: trace of >=2 entries; distinct = distinct serialised history"),
    ("C10", "exploration", "same generator with queries (bank balance/all/supply, wasm raw/smart/contract-info/code-info, custom; nested smart queries) at entry and after own writes on most nodes and as App-level query batches issued twice; oracle: storage unchanged by queries, second answer equals first, every in-contract result equals the reference evaluated on the state at that point of the tree; at the end of every history three queries are repeated around a run of 48 failing queries (contracts that do not exist, strings that are no address). Non-trivial call: trace of >=2 entries; distinct = distinct serialised history"),
    ("C13", "fault_enumeration", "same generator with attribute keys / event types drawn from a boundary grammar (empty, whitespace-only incl. unicode spaces, _x, ' _x', x_, 1-byte types, 2-byte 1-char types) at every entry point and depth, with fault flipping as in C01; oracle: a node is malformed iff the independent predicate says so, and then behaves exactly like a failed call; accepted strings surface unchanged. Non-trivial call: tree containing a malformed node; distinct = distinct serialised history"),
    ("C11", "exploration", "registry profile: code stores (plain, with creator, explicit ids incl. sparse/0/duplicate, duplicate_code), instantiate / instantiate2 (any code incl. unknown, salts from a small pool, labels incl. empty, admins, overdrawn funds, failing init nodes) top-level, via helpers and from contracts, migrations; oracle: returned ids/addresses, CodeInfo, ContractInfo/contract_data and usability of every stored code equal the reference registry. Non-trivial call: trace of >=2 entries; distinct = distinct serialised history"),
    ("C12", "exploration", "registry profile with migrate / update-admin / clear-admin attempts by admins, former admins, strangers and contracts (as sub-messages); oracle: success iff sender is the current admin, state unchanged otherwise, new code serves all later calls, storage kept. Non-trivial call: trace of >=2 entries; distinct = distinct serialised history"),
];

impl Check for TreeCheck {
    type Case = History;

    fn new(id: &str, tier: Tier) -> Self {
        TreeCheck { id: id.to_string(), tier, profile: gen::Profile::for_id(id, tier.is_thorough()) }
    }

    fn spec(id: &str) -> Spec {
        let (pid, level, rule) = RULES.iter().find(|r| r.0 == id).copied().unwrap_or(RULES[0]);
        // what all tree-engine generators share beyond the per-property description (DESIGN.md sections 5.2, 11)
        const COMMON: &str = " Common to all tree-engine profiles: twelve denominations; scenario templates at the start of a history (self-administered contract that migrates itself, failed batch followed by queries, migration there and back after a new block, a family of contracts whose admin changes hands, a storm of 33-38 caught sub-message failures in one call, seven consecutive credits of one account, an account that sends all twelve denominations at once, unbondings that tie on their completion time); one node in forty rewrites 1-4 keys 66-300 times, one in twelve removes a key and puts a constant back; funds of 9-12 coins, data up to 70 000 bytes, labels up to 1 100 bytes, strings behind up to 300 blanks; batches may address the contract an earlier message of the same batch creates; after its writes every contract reads them back through get, scan and bounded range / range_keys / range_values in both orders (model-free)";
        let rule: &'static str = Box::leak(format!("{}.{}", rule, COMMON).into_boxed_str());
        Spec {
            id: pid,
            level,
            rule,
            assumptions: vec![
                "scripted contracts (puppets) and the reference interpreter in harness/src/engines/tree are correct renderings of the property statements",
                "generator domain excludes message kinds the crate documents as unimplemented",
                "storage values are non-empty",
            ],
            floor_quick: 150,
        }
    }

    fn budget(id: &str, tier: Tier) -> Budget {
        let cases = match (fault_enumerating(id), tier) {
            (true, Tier::Quick) => 16_000,
            (true, Tier::Thorough) => 120_000,
            (false, Tier::Quick) => 40_000,
            (false, Tier::Thorough) => 600_000,
        };
        Budget { cases, max_bytes: if tier.is_thorough() { 20000 } else { 10000 } }
    }

    fn generate(&self, g: &mut Gen) -> History {
        let _ = self.tier;
        let hint = hint_contracts();
        let refs: Vec<&str> = hint.iter().map(|s| s.as_str()).collect();
        gen::gen_history(g, &self.profile, &refs)
    }

    fn execute(&self, case: &History, cx: &mut Cx) -> Result<(), Failure> {
        self.run_history(case, cx)
    }

    fn shrink(&self, case: &History) -> Vec<History> {
        shrink_history(case)
    }

    fn fixed_cases(&self, _tier: Tier) -> Vec<History> {
        if self.id == "C13" {
            c13_grid()
        } else {
            vec![]
        }
    }
}

/// C13: the cross product {string class} x {position} x {entry point} x {depth 0-2} x {reply_on},
/// enumerated completely in every run.
fn c13_grid() -> Vec<History> {
    const KEYS: [&str; 21] = ["", " ", "\t", "\u{00a0}", "\u{3000}", "_x", " _x", "__", "\u{2003}_a", "x_", " a ", "é", "a", "a_b", "\u{2003}b", "action", "_contract_address", " _contract_address\n", "_", "\u{b}", "\u{b}_k"];
    const TYPES: [&str; 16] = ["", " ", "a", " a ", "\t\n", "x ", "é", "ab", " ab ", "ev", "transfer", "✓", "wasm-x", "\ttransfer ", "\u{3000}日\u{3000}", "\u{b}x"];
    #[derive(Clone, Copy)]
    enum Pos {
        AttrKey,
        EventAttrKey,
        EventType,
    }
    #[derive(Clone, Copy, PartialEq)]
    enum Entry {
        Execute,
        Instantiate,
        Reply,
        Sudo,
        Migrate,
    }
    let mut out = vec![];
    let setup = Setup { balances: vec![[100, 100, 100]; N_USERS], codes: vec![CodeSpec { family: Family::Puppet, how: StoreHow::Plain, own_checksum: None }, CodeSpec { family: Family::WrappedFull, how: StoreHow::Plain, own_checksum: None }], validators: 0, unbonding_time: 60, addr_pool: 0, api: 0 };
    let init = |code: u8, admin: Option<ARef>| Tx { kind: TxKind::Exec { sender: ARef::User(0), msg: Msg::Inst { code: KRef(code), node: 0, funds: vec![], label: "c".into(), admin, salt: None }, via: Via::Execute }, nodes: vec![Node { writes: vec![Write::Set(crate::util::Hx(b"init".to_vec()), crate::util::Hx(vec![1]))], ..Default::default() }], qnodes: vec![] };
    let strings: Vec<(Pos, String)> = KEYS.iter().flat_map(|k| [(Pos::AttrKey, k.to_string()), (Pos::EventAttrKey, k.to_string())]).chain(TYPES.iter().map(|t| (Pos::EventType, t.to_string()))).collect();
    for (pos, s) in &strings {
        for entry in [Entry::Execute, Entry::Instantiate, Entry::Reply, Entry::Sudo, Entry::Migrate] {
            for depth in 0..3usize {
                for mode in [RO::Never, RO::Success, RO::Error, RO::Always] {
                    if depth == 0 && mode != RO::Never {
                        continue; // no enclosing sub-message at depth 0
                    }
                    if entry == Entry::Sudo && depth > 0 {
                        continue; // sudo is a top-level entry point only
                    }
                    // the node that returns the string under test
                    let mut bad = Node { writes: vec![Write::Set(crate::util::Hx(b"w".to_vec()), crate::util::Hx(vec![7]))], reads: vec![Read::Scan], ..Default::default() };
                    match pos {
                        Pos::AttrKey => bad.attrs.push((s.clone(), "v".into())),
                        Pos::EventAttrKey => bad.events.push(("ev".into(), vec![(s.clone(), "v".into())])),
                        Pos::EventType => bad.events.push((s.clone(), vec![("k".into(), "v".into())])),
                    }
                    // nodes: 0 = bad node, then wrappers
                    let mut nodes = vec![bad];
                    // message that reaches the bad node
                    let mut msg = match entry {
                        Entry::Execute => Msg::Exec { c: CRef(0), node: 0, funds: vec![] },
                        Entry::Instantiate => Msg::Inst { code: KRef(0), node: 0, funds: vec![], label: "n".into(), admin: None, salt: None },
                        Entry::Migrate => Msg::Migrate { c: CRef(1), code: KRef(1), node: 0 },
                        Entry::Reply => {
                            // a node whose bank sub-message succeeds and whose reply handler is the bad node
                            nodes.push(Node { subs: vec![Sub { id: 5, payload: crate::util::Hx(vec![0, 1]), reply_on: RO::Success, msg: Msg::Send { to: ARef::Fresh(0), coins: vec![CoinSpec { denom: 0, amt: Amt::Exact(1) }] }, reply: 0 }], ..Default::default() });
                            Msg::Exec { c: CRef(0), node: nodes.len() - 1, funds: vec![CoinSpec { denom: 0, amt: Amt::Exact(2) }] }
                        }
                        Entry::Sudo => Msg::Custom { tag: 0, fail: false },
                    };
                    // wrap in `depth` levels of contract calls; the innermost edge carries `mode`
                    for lvl in 0..depth {
                        let reply_node = nodes.len();
                        nodes.push(Node { writes: vec![Write::Set(crate::util::Hx(b"r".to_vec()), crate::util::Hx(vec![lvl as u8 + 1]))], ..Default::default() });
                        let edge_mode = if lvl == 0 { mode } else { RO::Never };
                        nodes.push(Node {
                            writes: vec![Write::Set(crate::util::Hx(b"p".to_vec()), crate::util::Hx(vec![lvl as u8 + 1]))],
                            subs: vec![Sub { id: 9, payload: crate::util::Hx(vec![1, lvl as u8]), reply_on: edge_mode, msg, reply: if edge_mode == RO::Never { usize::MAX } else { reply_node } }],
                            ..Default::default()
                        });
                        // the migrating wrapper must be the admin: contract 0 is admin of contract 1 (see below)
                        msg = Msg::Exec { c: CRef(0), node: nodes.len() - 1, funds: vec![] };
                    }
                    let kind = if entry == Entry::Sudo {
                        TxKind::WasmSudo { c: CRef(0), node: 0, via_sudo: s.len() % 2 == 0 }
                    } else if entry == Entry::Migrate && depth == 0 {
                        TxKind::Exec { sender: ARef::User(1), msg, via: Via::Execute }
                    } else {
                        TxKind::Exec { sender: ARef::User(0), msg, via: Via::Execute }
                    };
                    // contract 0: no admin; contract 1: admin = user 1 (depth 0) or contract 0 (nested migrate)
                    let admin1 = if depth == 0 { ARef::User(1) } else { ARef::C(CRef(0)) };
                    out.push(History { setup: setup.clone(), txs: vec![init(0, None), init(0, Some(admin1)), Tx { kind, nodes, qnodes: vec![] }] });
                }
            }
        }
    }
    out
}

pub fn shrink_history(h: &History) -> Vec<History> {
    let mut out = vec![];
    let n = h.txs.len();
    // drop transactions (latest first keeps indices of earlier ones meaningful)
    if n >= 4 {
        let mut c = h.clone();
        c.txs.truncate(n / 2);
        out.push(c);
    }
    for i in (0..n).rev() {
        let mut c = h.clone();
        c.txs.remove(i);
        out.push(c);
    }
    // drop codes from the setup (keep the first)
    for i in (1..h.setup.codes.len()).rev() {
        let mut c = h.clone();
        c.setup.codes.remove(i);
        out.push(c);
    }
    for (ti, tx) in h.txs.iter().enumerate() {
        if let TxKind::Multi { msgs, .. } = &tx.kind {
            for mi in 0..msgs.len() {
                let mut c = h.clone();
                if let TxKind::Multi { msgs, .. } = &mut c.txs[ti].kind {
                    msgs.remove(mi);
                }
                out.push(c);
            }
        }
        for (ni, node) in tx.nodes.iter().enumerate() {
            for si in 0..node.subs.len() {
                let mut c = h.clone();
                c.txs[ti].nodes[ni].subs.remove(si);
                out.push(c);
            }
            let mut simpler = node.clone();
            simpler.pre_queries.clear();
            simpler.queries.clear();
            if simpler != *node {
                let mut c = h.clone();
                c.txs[ti].nodes[ni] = simpler;
                out.push(c);
            }
            for f in 0..6 {
                let mut s = node.clone();
                match f {
                    0 => s.reads.clear(),
                    1 => s.writes.clear(),
                    2 => s.attrs.clear(),
                    3 => s.events.clear(),
                    4 => s.data = DataSpec::None,
                    _ => s.fail = false,
                }
                if s != *node {
                    let mut c = h.clone();
                    c.txs[ti].nodes[ni] = s;
                    out.push(c);
                }
            }
            for si in 0..node.subs.len() {
                let sub = &node.subs[si];
                let mut s2 = sub.clone();
                if s2.payload.0.len() > 2 {
                    s2.payload.0.truncate(2);
                }
                if let Msg::Exec { funds, .. } | Msg::Inst { funds, .. } = &mut s2.msg {
                    funds.clear();
                }
                if s2 != *sub {
                    let mut c = h.clone();
                    c.txs[ti].nodes[ni].subs[si] = s2;
                    out.push(c);
                }
            }
        }
    }
    out
}
