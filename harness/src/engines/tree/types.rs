//! Symbolic histories for the tree engine. All references (contracts, codes, accounts, amounts)
//! are symbolic and are resolved by the reference interpreter at the moment a message is
//! dispatched, so that structural shrinking keeps cases meaningful.

use crate::util::Hx;
use serde::{Deserialize, Serialize};

/// the first three are what users start with; the others only appear through mints and transfers
/// (an account can end up holding more than eight denominations)
pub const DENOMS: [&str; 12] = ["uatom", "TOKEN", "eth", "aaa", "btc", "dot", "ibc/27394FB092D2ECCD56123C74F36E4C1F926001CEADA9CA97EA622B25F41E5EB2", "juno", "osmo", "sol", "ust", "zzz"];
pub const N_USERS: usize = 4;

/// index (modulo the number of existing contracts, in creation order); 255 = a valid address
/// at which no contract exists; 254 = a string that is not an address at all; 253 = the first
/// contract's address spelled in upper case
#[derive(Clone, Copy, Debug, Serialize, Deserialize, PartialEq, Eq)]
pub struct CRef(pub u8);

/// index (modulo the number of stored codes, in id order); 255 = unknown id, 254 = id 0
#[derive(Clone, Copy, Debug, Serialize, Deserialize, PartialEq, Eq)]
pub struct KRef(pub u8);

#[derive(Clone, Copy, Debug, Serialize, Deserialize, PartialEq, Eq)]
pub enum ARef {
    User(u8),
    C(CRef),
    Fresh(u8),
    /// a plain name that is not an address of the chain's codec ("raw0", "RAW1"): it can sign a
    /// top-level message and be recorded as a contract's admin (both are taken unchecked), but it
    /// cannot be validated, so it cannot be minted to, become admin through UpdateAdmin or be queried
    /// (it can be sent coins: the bank takes the recipient of a Send unchecked)
    Raw(u8),
    /// the address of user `i` written in the *other* checksum variant (Bech32m) with the chain's own
    /// prefix: well-formed, but not an address of this chain's codec; treated like a raw name
    Alien(u8),
}

#[derive(Clone, Copy, Debug, Serialize, Deserialize, PartialEq, Eq)]
pub enum Amt {
    Exact(u128),
    /// the sender's whole balance of that denomination at dispatch time
    Bal,
    BalPlus(u128),
    BalMinus(u128),
    Half,
}

#[derive(Clone, Debug, Serialize, Deserialize, PartialEq, Eq)]
pub struct CoinSpec {
    pub denom: u8,
    pub amt: Amt,
}

#[derive(Clone, Copy, Debug, Serialize, Deserialize, PartialEq, Eq)]
pub enum RO {
    Never,
    Success,
    Error,
    Always,
}

#[derive(Clone, Debug, Serialize, Deserialize, PartialEq, Eq)]
pub enum Msg {
    Exec { c: CRef, node: usize, funds: Vec<CoinSpec> },
    Inst { code: KRef, node: usize, funds: Vec<CoinSpec>, label: String, admin: Option<ARef>, salt: Option<Hx> },
    Migrate { c: CRef, code: KRef, node: usize },
    UpdateAdmin { c: CRef, admin: ARef },
    ClearAdmin { c: CRef },
    Send { to: ARef, coins: Vec<CoinSpec> },
    Burn { coins: Vec<CoinSpec> },
    Custom { tag: u32, fail: bool },
    Delegate { v: u8, amt: CoinSpec },
    Undelegate { v: u8, amt: CoinSpec },
    Redelegate { src: u8, dst: u8, amt: CoinSpec },
    SetWithdraw { to: ARef },
}

#[derive(Clone, Debug, Serialize, Deserialize, PartialEq, Eq)]
pub struct Sub {
    pub id: u64,
    pub payload: Hx,
    pub reply_on: RO,
    pub msg: Msg,
    /// node run by the dispatcher's reply entry point for this sub-message
    pub reply: usize,
}

#[derive(Clone, Debug, Serialize, Deserialize, PartialEq, Eq)]
pub enum Read {
    Get(Hx),
    Scan,
}

#[derive(Clone, Debug, Serialize, Deserialize, PartialEq, Eq)]
pub enum Write {
    Set(Hx, Hx),
    Remove(Hx),
}

#[derive(Clone, Debug, Serialize, Deserialize, PartialEq, Eq)]
pub enum QSpec {
    Balance(ARef, u8),
    AllBalances(ARef),
    Supply(u8),
    Raw(CRef, Hx),
    ContractInfo(CRef),
    CodeInfo(KRef),
    /// smart query to a puppet's query entry point running query-node `q`
    Smart(CRef, usize),
    Custom(u32),
    BondedDenom,
    Delegation(ARef, u8),
    AllDelegations(ARef),
    AllValidators,
}

#[derive(Clone, Debug, Default, Serialize, Deserialize, PartialEq, Eq)]
pub struct QNode {
    pub reads: Vec<Read>,
    pub queries: Vec<QSpec>,
    pub fail: bool,
}

#[derive(Clone, Debug, Serialize, Deserialize, PartialEq, Eq)]
pub enum DataSpec {
    None,
    Some(Hx),
}

#[derive(Clone, Debug, Serialize, Deserialize, PartialEq, Eq)]
pub struct Node {
    /// queries issued at entry, before own writes
    pub pre_queries: Vec<QSpec>,
    pub reads: Vec<Read>,
    pub writes: Vec<Write>,
    /// queries issued after own writes
    pub queries: Vec<QSpec>,
    pub fail: bool,
    pub attrs: Vec<(String, String)>,
    pub events: Vec<(String, Vec<(String, String)>)>,
    pub data: DataSpec,
    pub subs: Vec<Sub>,
}

impl Default for Node {
    fn default() -> Self {
        Node { pre_queries: vec![], reads: vec![], writes: vec![], queries: vec![], fail: false, attrs: vec![], events: vec![], data: DataSpec::None, subs: vec![] }
    }
}

#[derive(Clone, Copy, Debug, Serialize, Deserialize, PartialEq, Eq)]
pub enum Family {
    /// implements the Contract trait directly for the chain's custom message type
    Puppet,
    /// ContractWrapper::new_with_empty + with_{reply,sudo,migrate}_empty (lifted by the wrapper)
    WrappedFull,
    /// ContractWrapper::new_with_empty only: no reply / sudo / migrate entry points
    WrappedMin,
}

#[derive(Clone, Debug, Serialize, Deserialize, PartialEq, Eq)]
pub enum StoreHow {
    Plain,
    WithCreator(u8),
    WithId(u64),
    Duplicate(KRef),
}

#[derive(Clone, Debug, Serialize, Deserialize, PartialEq, Eq)]
pub struct CodeSpec {
    pub family: Family,
    pub how: StoreHow,
    /// contract supplies its own checksum (Contract::checksum) derived from this seed
    pub own_checksum: Option<u8>,
}

#[derive(Clone, Copy, Debug, Serialize, Deserialize, PartialEq, Eq)]
pub enum Via {
    /// App::execute
    Execute,
    /// App::execute_multi with a single message
    Multi,
    /// the matching Executor helper (execute_contract / instantiate_contract / instantiate2_contract / migrate_contract / send_tokens)
    Helper,
}

#[derive(Clone, Debug, Serialize, Deserialize, PartialEq, Eq)]
pub enum AppQuery {
    Q(QSpec),
    ContractData(CRef),
    Dump(CRef),
}

#[derive(Clone, Debug, Serialize, Deserialize, PartialEq, Eq)]
pub enum TxKind {
    Exec { sender: ARef, msg: Msg, via: Via },
    Multi { sender: ARef, msgs: Vec<Msg> },
    /// App::wasm_sudo (false) or App::sudo(SudoMsg::Wasm) (true)
    WasmSudo { c: CRef, node: usize, via_sudo: bool },
    BankMint { to: ARef, coins: Vec<CoinSpec> },
    Slash { v: u8, percent: u8 },
    Block { dh: u64, dt: u64, set: bool, chain: Option<u8> },
    Queries(Vec<AppQuery>),
    Store(CodeSpec),
}

#[derive(Clone, Debug, Serialize, Deserialize, PartialEq, Eq)]
pub struct Tx {
    pub kind: TxKind,
    pub nodes: Vec<Node>,
    pub qnodes: Vec<QNode>,
}

#[derive(Clone, Debug, Serialize, Deserialize, PartialEq, Eq)]
pub struct Setup {
    /// per user, per denomination
    pub balances: Vec<[u64; 3]>,
    pub codes: Vec<CodeSpec>,
    /// number of validators (0 = staking unused); unbonding time in seconds
    pub validators: u8,
    pub unbonding_time: u64,
    /// 0 = the default address generator; k > 0 = a custom generator that maps every unsalted
    /// instantiation to one of k & 0x7f addresses (so that address collisions happen); with bit 7 set
    /// every odd address of the pool is the string right after its predecessor (adjacent key spaces)
    #[serde(default)]
    pub addr_pool: u8,
    /// the App's Api: 0 = cosmwasm-std's `MockApi` (what `App::default()` uses), 1 = the crate's own
    /// `MockApiBech32`; both with the prefix of the instance
    #[serde(default)]
    pub api: u8,
}

#[derive(Clone, Debug, Serialize, Deserialize, PartialEq, Eq)]
pub struct History {
    pub setup: Setup,
    pub txs: Vec<Tx>,
}
