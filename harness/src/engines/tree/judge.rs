//! Projections: one oracle per property over the same execution. Every discrepancy between the
//! real run and the reference interpretation is attributed to the property (or properties) whose
//! statement it contradicts; a check only reports discrepancies it owns.

use super::model::{Resp, Site, Why};
use super::puppet::{Kind, TraceEntry};
use crate::util::hexs;
use cosmwasm_std::Event;
use std::collections::BTreeMap;

#[derive(Clone, Debug)]
pub struct Disc {
    pub owners: Vec<&'static str>,
    pub sig: String,
    pub msg: String,
    /// found without the reference interpreter (always reported to its owner, never gated)
    pub model_free: bool,
}

impl Disc {
    pub fn new(owners: &[&'static str], sig: impl Into<String>, msg: impl Into<String>) -> Disc {
        Disc { owners: owners.to_vec(), sig: sig.into(), msg: msg.into(), model_free: false }
    }
}

pub struct Pred {
    /// failed messages with attached funds met by the reference before each trace entry
    pub funded_fail_before: Vec<usize>,
    pub last_fail: Option<Why>,
    /// contract -> every key it ever wrote in this history
    pub ever_written: BTreeMap<String, std::collections::BTreeSet<Vec<u8>>>,
    /// failures met by the reference before each trace entry
    pub fail_before: Vec<usize>,
    pub ok: bool,
    pub responses: Vec<Resp>,
    pub trace: Vec<TraceEntry>,
    pub whys: Vec<(usize, Why)>,
    pub failures: usize,
    pub caught: usize,
    pub sites: Vec<Site>,
    /// an earlier call of the same history met a failure that was caught by a reply
    pub caught_in_earlier_call: bool,
}

pub struct Actual {
    pub ok: bool,
    pub panic: Option<String>,
    pub responses: Vec<Resp>,
    pub trace: Vec<TraceEntry>,
}

fn ev_str(e: &Event) -> String {
    format!("{}[{}]", e.ty, e.attributes.iter().map(|a| format!("{}={}", a.key, a.value)).collect::<Vec<_>>().join(","))
}

pub fn events_str(evs: &[Event]) -> String {
    evs.iter().map(ev_str).collect::<Vec<_>>().join(" ")
}

fn entry_brief(e: &TraceEntry) -> String {
    format!("{:?}@{} node={:?}", e.kind, &e.contract[e.contract.len().saturating_sub(6)..], e.node)
}

fn string_multiset(evs: &[Event]) -> Vec<String> {
    let mut v: Vec<String> = vec![];
    for e in evs {
        v.push(format!("T:{}", e.ty));
        for a in &e.attributes {
            v.push(format!("K:{}", a.key));
            v.push(format!("V:{}", a.value));
        }
    }
    v.sort();
    v
}

/// order-insensitive summary of a list of events (which events with which attributes, ignoring
/// positions); used to tell "wrong content delivered" from "right content, other composition"
fn normalised(evs: &[Event]) -> Vec<String> {
    let mut v: Vec<String> = evs
        .iter()
        .map(|e| {
            let mut a: Vec<String> = e.attributes.iter().map(|a| format!("{}={}", a.key, a.value)).collect();
            a.sort();
            format!("{}[{}]", e.ty, a.join(","))
        })
        .collect();
    v.sort();
    v
}

/// Compares the real and the predicted trace; returns the discrepancy at the first divergence.
pub fn compare_traces(pred: &Pred, act: &Actual, top_ok_and_events_agree: Option<bool>) -> Option<Disc> {
    let n = pred.trace.len().max(act.trace.len());
    for i in 0..n {
        let (p, a) = (pred.trace.get(i), act.trace.get(i));
        let whys: Vec<&Why> = pred.whys.iter().filter(|(pos, _)| *pos == i).map(|(_, w)| w).collect();
        let structural = match (p, a) {
            (Some(p), Some(a)) => p.kind != a.kind || p.node != a.node,
            _ => true,
        };
        if structural {
            let pk = p.map(|e| e.kind);
            let ak = a.map(|e| e.kind);
            let mut owners: Vec<&'static str> = vec![];
            let mut what = "call sequence differs".to_string();
            let a_node = a.and_then(|e| e.node);
            // pass 1: a reply that can be pinned to one sub-message (spurious or missing)
            for w in &whys {
                match w {
                    Why::NoReply { reply_node, child_ok } if ak == Some(Kind::Reply) && a_node == Some(*reply_node) => {
                        owners.push("C03");
                        if !child_ok {
                            owners.push("C02");
                        }
                        what = "reply invoked although (outcome, reply_on) forbids it".into();
                    }
                    _ => {}
                }
            }
            if owners.is_empty() {
                for w in &whys {
                    if let Why::ReplyDue { child_ok, reply_node } = w {
                        if !(ak == Some(Kind::Reply) && a_node == Some(*reply_node)) {
                            owners.push("C03");
                            if !child_ok {
                                owners.push("C02");
                            }
                            what = format!("the reply for this sub-message is due here (sub-message {})", if *child_ok { "succeeded" } else { "failed" });
                            // the failure to be reported is a malformed response: it must be handled "with
                            // the same rollback as any other contract error", i.e. be catchable like one (C13)
                            if !child_ok && whys.iter().any(|x| matches!(x, Why::AfterMalformed)) {
                                owners.push("C13");
                            }
                            // a reply does run here, but the environment it is given names another contract:
                            // either it runs on the wrong contract (C03) or it is told a wrong own address (C05)
                            if ak == Some(Kind::Reply) && pk == Some(Kind::Reply) && a.map(|e| &e.contract) != p.map(|e| &e.contract) {
                                owners.push("C05");
                            }
                        }
                    }
                }
            }
            // pass 2: other explanations
            if owners.is_empty() {
                for w in &whys {
                    match w {
                        Why::AfterUncaught => {
                            owners.push("C02");
                            what = "an uncaught failure must stop the parent here".into();
                        }
                        Why::AfterCaught => {
                            owners.push("C02");
                            what = "a caught failure must let the parent continue here".into();
                        }
                        Why::Overdraft if matches!(ak, Some(Kind::Execute) | Some(Kind::Instantiate)) => {
                            owners.push("C05");
                            what = "the callee must not run: attached funds cannot be paid".into();
                        }
                        Why::AfterMalformed => {
                            owners.push("C13");
                            what = "the previous response is malformed and must count as a failure".into();
                        }
                        _ => {}
                    }
                }
            }
            if owners.is_empty() {
                for w in &whys {
                    match w {
                        Why::Starts if matches!(pk, Some(Kind::Instantiate) | Some(Kind::Migrate)) => {
                            owners.push("C11");
                            if pk == Some(Kind::Migrate) {
                                owners.push("C12");
                            }
                            what = "the registry must accept this request and run the entry point of the stored code".into();
                        }
                        Why::DuplicateAddress if ak == Some(Kind::Instantiate) => {
                            owners.push("C11");
                            owners.push("C08");
                            what = "the derived address already belongs to a contract: the request must be rejected, otherwise two contracts share one key space".into();
                        }
                        Why::RegistryReject if matches!(ak, Some(Kind::Instantiate) | Some(Kind::Migrate)) => {
                            owners.push("C11");
                            what = "the registry must reject this request (unknown code id, duplicate address, invalid salt, empty label or no such contract)".into();
                        }
                        Why::Unauthorized if ak == Some(Kind::Migrate) => {
                            owners.push("C12");
                            what = "only the current admin may migrate".into();
                        }
                        _ => {}
                    }
                }
            }
            if owners.is_empty() {
                if pk == Some(Kind::Query) || ak == Some(Kind::Query) {
                    owners.push("C10");
                } else {
                    // a call started / did not start for a reason the reply rules do not explain
                    owners.push("C02");
                }
            }
            // where an entry point of a sub-message's target is due, a reply of the dispatcher runs instead: it
            // reports on a sub-message that never ran ("after that sub-message finishes", C03)
            if ak == Some(Kind::Reply) && matches!(pk, Some(Kind::Execute) | Some(Kind::Instantiate) | Some(Kind::Migrate)) && !owners.contains(&"C03") {
                owners.push("C03");
            }
            owners.sort();
            owners.dedup();
            return Some(Disc { owners, sig: "trace:call-sequence".into(), msg: format!("trace position {}: {}; expected {}, real run has {}", i, what, p.map(entry_brief).unwrap_or_else(|| "end of trace".into()), a.map(entry_brief).unwrap_or_else(|| "end of trace".into())), model_free: false });
        }
        let (p, a) = (p.unwrap(), a.unwrap());
        if p == a {
            continue;
        }
        // same call, different observation
        if p.contract != a.contract || p.sender != a.sender || p.funds != a.funds || p.block != a.block || p.own_balance != a.own_balance {
            let field = if p.contract != a.contract {
                "env.contract.address"
            } else if p.sender != a.sender {
                "sender"
            } else if p.funds != a.funds {
                "funds"
            } else if p.block != a.block {
                "env.block"
            } else {
                "own balance at entry"
            };
            // after a failure earlier in the same call a wrong balance may as well be a missing rollback
            let failed_before = pred.fail_before.get(i).copied().unwrap_or(0) > 0;
            let after_failure = field == "own balance at entry" && failed_before;
            let callee_entry = matches!(p.kind, Kind::Execute | Kind::Instantiate);
            return Some(Disc::new(
                if field == "env.contract.address" && p.kind == Kind::Instantiate {
                    // the address of a new contract: derivation (C11), or leaked registry state after a failure (C02)
                    // (a sub-message that failed in an earlier call - and was caught there - must not have left anything behind either)
                    if failed_before { &["C02"] } else if pred.caught_in_earlier_call { &["C11", "C02"] } else { &["C11"] }
                } else if after_failure && !callee_entry && pred.funded_fail_before.get(i).copied().unwrap_or(0) > 0 {
                    // a failed call had funds attached: they must have been returned (C05), by rollback (C02);
                    // the balance is observed through a bank query, which must show no rolled-back effect (C10)
                    &["C02", "C05", "C10"]
                } else if after_failure && !callee_entry {
                    &["C02", "C10"]
                } else if after_failure {
                    &["C02", "C05", "C10"]
                } else if field == "own balance at entry" && callee_entry {
                    // the balance is observed through a bank query at entry: "funds have already been
                    // moved" (C05) and "a query observes the funds it was just sent" (C10) alike
                    &["C05", "C10"]
                } else {
                    &["C05"]
                },
                format!("trace:{}", field.replace(' ', "-")),
                format!("trace position {} ({}): {} differs: expected {:?}/{:?}/{:?}/{:?}/{:?}, contract saw {:?}/{:?}/{:?}/{:?}/{:?}", i, entry_brief(p), field, p.contract, p.sender, p.funds, p.block, p.own_balance, a.contract, a.sender, a.funds, a.block, a.own_balance),
            ));
        }
        if p.code_tag != a.code_tag {
            // after a failure earlier in the same call: a rolled-back migration / instantiation that still
            // decides which code serves the address has left a trace (C02)
            let after_failure = pred.fail_before.get(i).copied().unwrap_or(0) > 0;
            return Some(Disc::new(if after_failure { &["C12", "C11", "C02"] } else { &["C12", "C11"] }, "trace:code-tag", format!("trace position {} ({}): served by code tag {} but the contract's current code has tag {}", i, entry_brief(p), a.code_tag, p.code_tag)));
        }
        if p.reply != a.reply {
            let (pr, ar) = (p.reply.as_ref(), a.reply.as_ref());
            let structural = match (pr, ar) {
                (Some(x), Some(y)) => x.id != y.id || x.payload != y.payload || x.ok != y.ok,
                _ => true,
            };
            if structural {
                return Some(Disc::new(
                    &["C03"],
                    "reply:id-payload-result",
                    format!("trace position {} ({}): Reply differs: expected id={:?} payload={:?} ok={:?}, delivered id={:?} payload={:?} ok={:?}", i, entry_brief(p), pr.map(|r| r.id), pr.map(|r| hexs(&r.payload)), pr.map(|r| r.ok), ar.map(|r| r.id), ar.map(|r| hexs(&r.payload)), ar.map(|r| r.ok)),
                ));
            }
            let (pr, ar) = (pr.unwrap(), ar.unwrap());
            let content_differs = normalised(&pr.events) != normalised(&ar.events) || pr.events.len() != ar.events.len();
            let data_differs = pr.data != ar.data || pr.msg_values != ar.msg_values;
            // "exactly the events and response data the sub-message produced": any difference,
            // a permutation of attributes included, is C03's; the composition is C04's as well
            let _ = content_differs;
            let owners: Vec<&'static str> = vec!["C03", "C04"];
            let _ = top_ok_and_events_agree;
            return Some(Disc { owners, sig: "reply:content".into(), msg: format!("trace position {} ({}): Reply carries events [{}] data {:?}; the sub-message produced events [{}] data {:?}", i, entry_brief(p), events_str(&ar.events), ar.data.as_deref().map(hexs), events_str(&pr.events), pr.data.as_deref().map(hexs)), model_free: false });
        }
        if p.reads != a.reads {
            // a key this contract never wrote is an isolation problem; otherwise, after a failure
            // earlier in the call, a rollback problem; otherwise persistence / isolation
            let foreign = a.reads.iter().any(|r| match r {
                crate::engines::tree::puppet::ReadRes::Scanned(kv) => kv.iter().any(|(k, _)| !pred.ever_written.get(&a.contract).map_or(false, |s| s.contains(k))),
                _ => false,
            });
            let after_failure = pred.fail_before.get(i).copied().unwrap_or(0) > 0;
            return Some(Disc::new(if foreign && after_failure { &["C02", "C08"] } else if foreign { &["C08"] } else if after_failure { &["C02"] } else { &["C08", "C01"] }, "trace:reads", format!("trace position {} ({}): storage reads differ: contract saw {:?}, expected {:?}", i, entry_brief(p), a.reads, p.reads)));
        }
        if p.pre_queries != a.pre_queries || p.queries != a.queries {
            // after a failure earlier in the call: the query shows an effect that had to be rolled back,
            // which contradicts C02 (rollback) and C10 (no rolled-back effect is observable) alike
            return Some(Disc::new(if pred.fail_before.get(i).copied().unwrap_or(0) > 0 { &["C02", "C10"] } else { &["C10"] }, "trace:query-results", format!("trace position {} ({}): query results differ: contract was told {:?} / {:?}, state at that point gives {:?} / {:?}", i, entry_brief(p), a.pre_queries, a.queries, p.pre_queries, p.queries)));
        }
        return Some(Disc::new(&["C02"], "trace:entry", format!("trace position {} differs: {:?} vs {:?}", i, p, a)));
    }
    None
}

/// Ok/Err mismatch with identical traces.
/// `root_leaf`: owner suggested by the kind of the top-level message when it is a single leaf
/// (admin operation, instantiate, bank, custom), used when the real call failed unexpectedly.
pub fn okerr_owners(pred: &Pred, act_ok: bool, root_leaf: Option<&'static str>) -> Vec<&'static str> {
    if act_ok {
        // the reference says the call fails; the failure that propagates in the reference tells whose rule was skipped
        match &pred.last_fail {
            Some(Why::AfterMalformed) => vec!["C13"],
            Some(Why::Overdraft) => vec!["C05"],
            Some(Why::RegistryReject) => vec!["C11"],
            Some(Why::Unauthorized) => vec!["C12"],
            // "a successful migration runs the migrate entry point of the new code": there is none
            Some(Why::NoEntryPoint(Kind::Migrate)) => vec!["C12"],
            Some(Why::NoEntryPoint(Kind::Reply)) => vec!["C03", "C02"],
            _ => vec!["C02"],
        }
    } else {
        // the real call failed although nothing in the reference fails
        match root_leaf {
            Some(o) => vec![o],
            None => vec!["C02"],
        }
    }
}

pub fn compare_responses(pred: &[Resp], act: &[Resp]) -> Option<Disc> {
    if pred.len() != act.len() {
        return Some(Disc::new(&["C01"], "responses:count", format!("{} responses returned for {} messages", act.len(), pred.len())));
    }
    for (i, (p, a)) in pred.iter().zip(act.iter()).enumerate() {
        if p.events != a.events {
            let mut owners = vec!["C04"];
            if string_multiset(&p.events) != string_multiset(&a.events) {
                owners.push("C13");
            }
            // responses swapped between messages?
            if pred.len() > 1 && pred.iter().any(|q| q.events == a.events) {
                owners.push("C01");
            }
            return Some(Disc { owners, sig: "response:events".into(), msg: format!("response {}: events [{}], composition rules give [{}]", i, events_str(&a.events), events_str(&p.events)), model_free: false });
        }
        if p.data != a.data {
            return Some(Disc::new(&["C04"], "response:data", format!("response {}: data {:?}, composition rules give {:?}", i, a.data.as_deref().map(hexs), p.data.as_deref().map(hexs))));
        }
    }
    None
}

#[derive(Clone, Debug, PartialEq, Eq, Default)]
pub struct Observed {
    /// address -> (code_id, creator, admin, label, created, kv dump)
    pub contracts: BTreeMap<String, (u64, String, Option<String>, String, u64, Vec<(Vec<u8>, Vec<u8>)>)>,
    /// address -> positive balances sorted by denom
    pub balances: BTreeMap<String, Vec<(String, u128)>>,
    pub xmarks: BTreeMap<u32, String>,
    pub delegations: BTreeMap<(String, String), u128>,
    pub supply: BTreeMap<String, u128>,
}

pub fn compare_state(pred: &Observed, act: &Observed, failures: usize, ever_written: &BTreeMap<String, std::collections::BTreeSet<Vec<u8>>>) -> Vec<Disc> {
    let mut out = vec![];
    let rollback_owner: &'static str = if failures > 0 { "C02" } else { "C01" };
    let addrs: std::collections::BTreeSet<&String> = pred.contracts.keys().chain(act.contracts.keys()).collect();
    for addr in addrs {
        match (pred.contracts.get(addr), act.contracts.get(addr)) {
            (Some(p), Some(a)) => {
                if (p.0, &p.1, &p.2, &p.3, p.4) != (a.0, &a.1, &a.2, &a.3, a.4) {
                    out.push(Disc::new(
                        if failures > 0 { &["C02"] } else { &["C11", "C12"] },
                        "state:contract-info",
                        format!("contract {}: recorded (code_id, creator, admin, label, created) = {:?}, expected {:?}", addr, (a.0, &a.1, &a.2, &a.3, a.4), (p.0, &p.1, &p.2, &p.3, p.4)),
                    ));
                }
                if p.5 != a.5 {
                    let pm: BTreeMap<_, _> = p.5.iter().cloned().collect();
                    let am: BTreeMap<_, _> = a.5.iter().cloned().collect();
                    let foreign = am.keys().any(|k| !pm.contains_key(k) && !ever_written.get(addr).map_or(false, |s| s.contains(k)));
                    let mut owners = vec![rollback_owner];
                    if foreign {
                        owners.push("C08");
                    }
                    let detail = crate::util::diff_scans(&p.5, &a.5).unwrap_or_default();
                    out.push(Disc { owners, sig: "state:contract-storage".into(), msg: format!("contract {} storage after the call differs from the expected one: {}", addr, detail), model_free: false });
                }
            }
            (Some(_), None) => out.push(Disc::new(if failures > 0 { &["C02"] } else { &["C11", "C01"] }, "state:contract-missing", format!("contract {} should exist after the call", addr))),
            (None, Some(_)) => out.push(Disc::new(if failures > 0 { &["C02"] } else { &["C11", "C01"] }, "state:contract-unexpected", format!("contract {} exists after the call but its instantiation failed or never happened", addr))),
            (None, None) => {}
        }
    }
    if pred.balances != act.balances {
        let addrs: std::collections::BTreeSet<&String> = pred.balances.keys().chain(act.balances.keys()).collect();
        for a in addrs {
            let (p, r) = (pred.balances.get(a).cloned().unwrap_or_default(), act.balances.get(a).cloned().unwrap_or_default());
            if p != r {
                out.push(Disc::new(&[if failures > 0 { "C02" } else { "C05" }, "C09"], "state:balance", format!("balance of {} is {:?}, expected {:?}", a, r, p)));
                break;
            }
        }
    }
    if pred.delegations != act.delegations {
        out.push(Disc::new(&[if failures > 0 { "C02" } else { "C01" }, "C14"], "state:delegations", format!("delegations {:?}, expected {:?}", act.delegations, pred.delegations)));
    }
    if pred.supply != act.supply {
        out.push(Disc::new(&[if failures > 0 { "C02" } else { "C01" }, "C09"], "state:supply", format!("supply {:?}, expected {:?}", act.supply, pred.supply)));
    }
    if pred.xmarks != act.xmarks {
        out.push(Disc::new(&[if failures > 0 { "C02" } else { "C17" }], "state:custom-module", format!("custom module markers {:?}, expected {:?}", act.xmarks, pred.xmarks)));
    }
    out
}
