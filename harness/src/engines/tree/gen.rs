//! Generator of symbolic histories (setup + transactions, each the root of a message tree).

use super::types::*;
use crate::gen::Gen;
use crate::util::Hx;

/// Generator weights; one profile per property that uses the tree engine.
#[derive(Clone, Debug)]
pub struct Profile {
    pub max_tx: usize,
    pub max_depth: usize,
    pub max_nodes: usize,
    /// probability (per 16) that a node is scripted to fail
    pub fail_p: usize,
    /// probability (per 16) that a bank leaf overdraws
    pub overdraw_p: usize,
    /// content: attributes / events / data
    pub content: usize,
    /// per 16: a string of the response is drawn from the malformed-boundary grammar
    pub malformed_p: usize,
    pub queries: usize,
    pub funds: usize,
    pub hostile_keys: bool,
    pub multi_w: u32,
    pub sudo_w: u32,
    pub block_w: u32,
    pub store_w: u32,
    pub query_tx_w: u32,
    pub registry: bool,
    pub reply_w: [u32; 4],
    pub sparse_ids: bool,
    /// per 16: the history has validators and staking messages / queries are generated
    pub staking_p: usize,
}

impl Profile {
    pub fn base(thorough: bool) -> Profile {
        Profile {
            max_tx: if thorough { 14 } else { 9 },
            max_depth: if thorough { 6 } else { 4 },
            max_nodes: if thorough { 40 } else { 14 },
            fail_p: 2,
            overdraw_p: 2,
            content: 4,
            malformed_p: 0,
            queries: 2,
            funds: 5,
            hostile_keys: false,
            multi_w: 3,
            sudo_w: 2,
            block_w: 1,
            store_w: 1,
            query_tx_w: 1,
            registry: false,
            reply_w: [4, 3, 3, 3],
            sparse_ids: false,
            staking_p: 5,
        }
    }

    pub fn for_id(id: &str, thorough: bool) -> Profile {
        let mut p = Profile::base(thorough);
        // ordering / arity of several top-level messages is C01's (and exercised by C19); elsewhere
        // execute_multi carries one message, so that an ordering defect is not blamed on others
        // (C10 keeps a few: what a failed batch leaves behind outside the store shows in later queries)
        if id != "C01" && id != "C19" {
            p.multi_w = if id == "C10" { 2 } else { 0 };
        }
        match id {
            "C01" => {
                p.multi_w = 8;
                p.sudo_w = 5;
            }
            "C02" => {
                p.fail_p = 3;
                p.overdraw_p = 3;
                p.reply_w = [3, 2, 4, 4];
            }
            "C03" => {
                p.reply_w = [2, 4, 4, 5];
                p.fail_p = 3;
            }
            "C04" => {
                p.content = 12;
                p.fail_p = 2;
                // a few reserved / blank keys and short types: what gets past validation must still be composed by the rules
                p.malformed_p = 1;
            }
            "C05" => {
                p.funds = 12;
                p.block_w = 5;
                p.sudo_w = 4;
                p.registry = true;
            }
            "C08" => {
                p.hostile_keys = true;
                p.queries = 4;
            }
            "C10" => {
                p.queries = 10;
                p.query_tx_w = 5;
            }
            "C13" => {
                p.malformed_p = 5;
                p.content = 10;
                p.fail_p = 1;
                p.sudo_w = 4;
                p.registry = true;
            }
            "C11" | "C12" => {
                p.registry = true;
                p.store_w = 5;
                p.sparse_ids = true;
                p.fail_p = 2;
                p.max_depth = 3;
            }
            "C19" => {
                p.store_w = 3;
                p.registry = true;
                p.sparse_ids = true;
                p.queries = 4;
                p.block_w = 3;
            }
            _ => {}
        }
        p
    }
}

pub const KEY_POOL: [&[u8]; 8] = [b"k0", b"k1", b"k2", b"", b"\x00", b"\xff", b"k", b"k00"];

pub fn hostile_keys(contracts: &[&str]) -> Vec<Vec<u8>> {
    let mut v: Vec<Vec<u8>> = vec![
        b"\x00\x04bank\x00\x08balances".to_vec(),
        b"\x00\x04bank".to_vec(),
        b"\x00\x07staking".to_vec(),
        b"\x00\x04wasm\x00\x09contracts".to_vec(),
        b"\x00\x04wasm".to_vec(),
        b"\x00\x04xmodm1".to_vec(),
        b"contract_data/".to_vec(),
    ];
    for c in contracts {
        let mut k = b"\x00\x04wasm".to_vec();
        let ns = format!("contract_data/{}", c);
        k.push((ns.len() >> 8) as u8);
        k.push((ns.len() & 0xff) as u8);
        k.extend_from_slice(ns.as_bytes());
        k.extend_from_slice(b"k0");
        v.push(k);
        let mut k2 = b"\x00\x04bank\x00\x08balances".to_vec();
        k2.extend_from_slice(c.as_bytes());
        v.push(k2);
    }
    v
}

struct TxGen<'g, 'a> {
    staking: bool,
    g: &'g mut Gen<'a>,
    p: &'g Profile,
    nodes: Vec<Node>,
    qnodes: Vec<QNode>,
    budget: usize,
    uniq: u16,
    txno: u8,
    wcount: u8,
    hostile: Vec<Vec<u8>>,
}

const GOOD_KEYS: [&str; 8] = ["action", "k", "x_", "é", " a ", "method", "contract_address", "a._b"];
const BAD_KEYS: [&str; 14] = ["", " ", "_x", " _x", "__", "\t", "\u{00a0}", "\u{3000}_a", "_contract_address", " _contract_address ", "_", "\u{b}", "\u{b}_x", "\u{85}\u{2028}"];
const EDGE_KEYS: [&str; 6] = ["x_", " a ", "é", "a", "a_b", "\u{2003}b"];
const GOOD_TYPES: [&str; 10] = ["ev", "transfer", "ab", " ab ", "é", "wasm", "wasm-x", "wasm-wasm", "execute", "\ttransfer "];
const BAD_TYPES: [&str; 8] = ["", " ", "a", " a ", "\t\n", "x ", "\u{b}x", "\u{2029}y\u{b}"];

impl TxGen<'_, '_> {
    fn key(&mut self) -> Vec<u8> {
        // (hostile-key profile) rarely: a key just beyond 64 KiB, the largest length a two-byte field holds
        if self.p.hostile_keys && self.g.chance(1, 120) {
            let mut k = b"\x00\x04bank\x00\x08balances".to_vec();
            k.resize(65536 + self.g.below(3), 0x5a);
            return k;
        }
        if self.p.hostile_keys && !self.hostile.is_empty() && self.g.chance(1, 2) {
            self.g.pick_ref(&self.hostile).clone()
        } else {
            self.g.pick(&KEY_POOL).to_vec()
        }
    }

    fn value(&mut self, node: usize) -> Vec<u8> {
        // mostly unique values (a leaked or lost write is then attributable); sometimes one of a few
        // constants, so that a key is set back to exactly the value it had before (V -> W -> V)
        if self.g.chance(1, 3) {
            return self.g.pick(&[&[1u8][..], &[2], &[1, 1]]).to_vec();
        }
        self.wcount = self.wcount.wrapping_add(1);
        vec![self.txno, node as u8, self.wcount]
    }

    fn coinspecs(&mut self) -> Vec<CoinSpec> {
        if !self.g.chance(self.p.funds, 16) {
            return vec![];
        }
        // rarely: more coins than any small-size fast path takes (nine to twelve denominations, most of which
        // an ordinary sender does not own)
        if self.g.chance(1, 30) {
            let n = 9 + self.g.below(4);
            let first = self.g.below(DENOMS.len());
            return (0..n).map(|i| CoinSpec { denom: ((first + i) % DENOMS.len()) as u8, amt: Amt::Exact(1 + self.g.below(2) as u128) }).collect();
        }
        let n = 1 + self.g.weighted(&[8, 2, 1]);
        (0..n)
            .map(|_| {
                let denom = self.g.below(3) as u8;
                let amt = if self.g.chance(self.p.overdraw_p, 16) {
                    match self.g.below(3) {
                        0 => Amt::BalPlus(1),
                        1 => Amt::Exact(0),
                        _ => Amt::BalPlus(1000),
                    }
                } else {
                    match self.g.weighted(&[6, 2, 2, 2]) {
                        0 => Amt::Exact(1 + self.g.below(5) as u128),
                        1 => Amt::Half,
                        2 => Amt::Bal,
                        _ => Amt::BalMinus(1),
                    }
                };
                CoinSpec { denom, amt }
            })
            .collect()
    }

    fn aref(&mut self) -> ARef {
        match self.g.weighted(&[12, 12, 3, 2, 1]) {
            0 => ARef::User(self.g.below(N_USERS) as u8),
            1 => ARef::C(CRef(self.g.below(6) as u8)),
            2 => ARef::Fresh(self.g.below(3) as u8),
            3 => ARef::Raw(self.g.below(4) as u8),
            _ => ARef::Alien(self.g.below(N_USERS) as u8),
        }
    }

    fn cref(&mut self) -> CRef {
        if self.g.chance(1, 24) {
            CRef(match self.g.below(4) { 0 => 254, 1 => 253, _ => 255 })
        } else {
            CRef(self.g.below(6) as u8)
        }
    }

    fn kref(&mut self) -> KRef {
        match self.g.weighted(&[20, 1, 1]) {
            0 => KRef(self.g.below(6) as u8),
            1 => KRef(255),
            _ => KRef(254),
        }
    }

    fn qspec(&mut self, depth: usize) -> QSpec {
        let sw = if self.staking { 2 } else { 0 };
        match self.g.weighted(&[4, 3, 2, 4, 2, 1, if depth < 2 { 4 } else { 0 }, 2, sw, sw, sw, if self.staking { 1 } else { 0 }]) {
            0 => QSpec::Balance(self.aref(), self.g.below(3) as u8),
            1 => QSpec::AllBalances(self.aref()),
            2 => QSpec::Supply(self.g.below(3) as u8),
            3 => {
                let k = self.key();
                QSpec::Raw(self.cref(), Hx(k))
            }
            4 => QSpec::ContractInfo(self.cref()),
            5 => QSpec::CodeInfo(self.kref()),
            6 => {
                let q = self.qnode(depth + 1);
                QSpec::Smart(self.cref(), q)
            }
            7 => QSpec::Custom(self.g.below(4) as u32),
            8 => QSpec::Delegation(self.aref(), self.vidx()),
            9 => QSpec::AllDelegations(self.aref()),
            10 => QSpec::BondedDenom,
            _ => QSpec::AllValidators,
        }
    }

    fn vidx(&mut self) -> u8 {
        if self.g.chance(1, 12) {
            255
        } else {
            self.g.below(2) as u8
        }
    }

    fn stake_amt(&mut self) -> CoinSpec {
        // denomination 1 is the bonded one; a foreign denomination is a listed failure
        let denom = if self.g.chance(1, 12) { 0 } else { 1 };
        let amt = match self.g.weighted(&[5, 2, 2, 1, 1]) {
            0 => Amt::Exact(1 + self.g.below(6) as u128),
            1 => Amt::Half,
            2 => Amt::Bal,
            3 => Amt::BalPlus(1),
            _ => Amt::Exact(0),
        };
        CoinSpec { denom, amt }
    }

    fn staking_msg(&mut self) -> Msg {
        match self.g.weighted(&[5, 4, 2, 1]) {
            0 => Msg::Delegate { v: self.vidx(), amt: self.stake_amt() },
            1 => Msg::Undelegate { v: self.vidx(), amt: self.stake_amt() },
            2 => Msg::Redelegate { src: self.vidx(), dst: self.vidx(), amt: self.stake_amt() },
            _ => Msg::SetWithdraw { to: self.aref() },
        }
    }

    fn qnode(&mut self, depth: usize) -> usize {
        let idx = self.qnodes.len();
        self.qnodes.push(QNode::default());
        let mut q = QNode::default();
        if self.g.chance(3, 4) {
            q.reads.push(Read::Scan);
        }
        if self.g.chance(1, 2) {
            q.reads.push(Read::Get(Hx(self.key())));
        }
        let n = self.g.weighted(&[5, 3, 1]);
        for _ in 0..n {
            let s = self.qspec(depth);
            q.queries.push(s);
        }
        q.fail = self.g.chance(1, 16);
        self.qnodes[idx] = q;
        idx
    }

    fn strings(&mut self, pool_good: &[&str], pool_bad: &[&str], pool_edge: &[&str]) -> String {
        if self.g.chance(self.p.malformed_p, 16) {
            if self.g.chance(1, 2) {
                self.g.pick(pool_bad).to_string()
            } else {
                self.g.pick(pool_edge).to_string()
            }
        } else if self.g.chance(1, 40) {
            // a perfectly good string behind (and before) a lot of white space
            format!("{}{}{}", " ".repeat(self.g.pick(&[62usize, 63, 64, 65, 130, 300])), self.g.pick(pool_good), " ".repeat(self.g.below(3) * 40))
        } else {
            self.g.pick(pool_good).to_string()
        }
    }

    fn content(&mut self, n: &mut Node, idx: usize) {
        let c = self.p.content;
        if self.g.chance(c, 16) {
            let k = self.g.below(3) + 1;
            for i in 0..k {
                let key = self.strings(&GOOD_KEYS, &BAD_KEYS, &EDGE_KEYS);
                let val = match self.g.weighted(&[2, 1, 7]) {
                    0 => String::new(),
                    1 => self.g.pick(&[" ", "\t", "\u{2003}", " padded ", "\n", "_v", "é "]).to_string(),
                    _ => format!("v{}.{}", idx, i),
                };
                n.attrs.push((key, val));
            }
        }
        if self.g.chance(c, 20) {
            let k = self.g.below(2) + 1;
            for i in 0..k {
                let ty = self.strings(&GOOD_TYPES, &BAD_TYPES, &GOOD_TYPES);
                let na = self.g.below(3);
                let attrs = (0..na)
                    .map(|j| {
                        let key = self.strings(&GOOD_KEYS, &BAD_KEYS, &EDGE_KEYS);
                        (key, match self.g.weighted(&[2, 1, 7]) {
                            0 => String::new(),
                            1 => self.g.pick(&[" ", "\t", "\u{2003}", " padded ", "\n", "_v"]).to_string(),
                            _ => format!("e{}.{}.{}", idx, i, j),
                        })
                    })
                    .collect();
                n.events.push((ty, attrs));
            }
        }
        if self.g.chance(c.max(3), 16) {
            n.data = match self.g.weighted(&[2, 5, 1, 2]) {
                0 => DataSpec::Some(Hx(vec![])),
                1 => DataSpec::Some(Hx(format!("d{}", idx).into_bytes())),
                // data that itself looks like an encoded execute / instantiate response (field 1 = bytes
                // or address, field 2 = bytes): must be wrapped again like any other data
                3 => DataSpec::Some(Hx(match self.g.below(4) {
                    0 => vec![0x0a, 0x02, b'd', b'1'],
                    1 => vec![0x0a, 0x03, b'a', b'b', b'c', 0x12, 0x01, 0xff],
                    2 => {
                        let a = self.hostile.first().cloned().unwrap_or_else(|| b"addr".to_vec());
                        let mut v = vec![0x0a, a.len().min(120) as u8];
                        v.extend(a.iter().take(120));
                        v
                    }
                    _ => vec![0x12, 0x00],
                })),
                _ => {
                    // mostly short; sometimes around the one-byte / two-byte length boundaries of the encodings
                    let len = match self.g.weighted(&[12, 3, 3, 1]) {
                        0 => 1 + self.g.below(40),
                        1 => 120 + self.g.below(16),
                        2 => 250 + self.g.below(60),
                        // beyond two- and three-byte length prefixes
                        _ => self.g.pick(&[16383usize, 16384, 16385, 16500, 70_000]),
                    };
                    DataSpec::Some(Hx((0..len).map(|_| self.g.byte()).collect()))
                }
            };
        }
    }

    fn node(&mut self, depth: usize, is_reply: bool) -> usize {
        let idx = self.nodes.len();
        self.nodes.push(Node::default());
        self.budget = self.budget.saturating_sub(1);
        let mut n = Node::default();
        // reads: a full scan at entry makes every leak / lost write visible in the trace
        if self.g.chance(3, 4) {
            n.reads.push(Read::Scan);
        }
        if self.g.chance(1, 3) {
            n.reads.push(Read::Get(Hx(self.key())));
        }
        let nw = self.g.weighted(&[2, 5, 3, 1]);
        for _ in 0..nw {
            let k = self.key();
            if self.g.chance(1, 6) {
                n.writes.push(Write::Remove(Hx(k)));
            } else {
                let v = self.value(idx);
                n.writes.push(Write::Set(Hx(k), Hx(v)));
            }
        }
        // sometimes: a key is removed and put back with one of the constant values (which an earlier call may
        // well have stored under it)
        if self.g.chance(1, 12) {
            let k = self.key();
            let v = self.g.pick(&[&[1u8][..], &[2], &[1, 1]]).to_vec();
            n.writes.push(Write::Remove(Hx(k.clone())));
            n.writes.push(Write::Set(Hx(k), Hx(v)));
        }
        // (hostile-key profile) rarely: a contract that holds more than a hundred entries
        if self.p.hostile_keys && self.g.chance(1, 50) {
            let m = 101 + self.g.below(30);
            for i in 0..m {
                n.writes.push(Write::Set(Hx(vec![0x62, (i / 256) as u8, (i % 256) as u8]), Hx(vec![1 + (i % 200) as u8])));
            }
        }
        // rarely: one call that rewrites a handful of keys many times over (beyond 64 / 128 / 256 operations in
        // one layer of the write cache); the last write of every key must be the one that counts
        if self.g.chance(1, 40) {
            let m = match self.g.below(3) {
                0 => 66 + self.g.below(25),
                1 => 129 + self.g.below(12),
                _ => 257 + self.g.below(44),
            };
            let nk = 1 + self.g.below(4);
            let keys: Vec<Vec<u8>> = (0..nk).map(|_| self.g.pick(&KEY_POOL).to_vec()).collect();
            for i in 0..m {
                let k = keys[self.g.below(nk)].clone();
                if self.g.chance(1, 12) {
                    n.writes.push(Write::Remove(Hx(k)));
                } else {
                    // half of the values come from the small constant pool: a key is removed and set back to what
                    // an earlier transaction committed
                    let v = if self.g.bool() { self.g.pick(&[&[1u8][..], &[2], &[1, 1]]).to_vec() } else { vec![self.txno, idx as u8, (i / 250) as u8 + 1, (i % 250) as u8 + 1] };
                    n.writes.push(Write::Set(Hx(k), Hx(v)));
                }
            }
        }
        if self.g.chance(self.p.queries, 16) {
            let q = self.qspec(0);
            n.pre_queries.push(q);
        }
        if self.g.chance(self.p.queries, 16) {
            let k = 1 + self.g.below(2);
            for _ in 0..k {
                let q = self.qspec(0);
                n.queries.push(q);
            }
        }
        n.fail = self.g.chance(self.p.fail_p, 16);
        self.content(&mut n, idx);
        // sub-messages
        if depth < self.p.max_depth && self.budget > 0 {
            let ns = if is_reply { self.g.weighted(&[6, 3, 1]) } else { self.g.weighted(&[3, 4, 3, 2]) };
            for _ in 0..ns {
                if self.budget == 0 {
                    break;
                }
                let mut s = self.sub(depth);
                // sometimes a sibling repeats the id and payload (often also the reply mode) of the sibling
                // before it
                if self.g.chance(1, 8) {
                    if let Some(prev) = n.subs.last() {
                        // (each keeps a reply node of its own; the modes may differ unless one of them has none)
                        if (prev.reply_on == RO::Never) == (s.reply_on == RO::Never) {
                            s.id = prev.id;
                            s.payload = prev.payload.clone();
                            if self.g.bool() {
                                s.reply_on = prev.reply_on;
                            }
                        }
                    }
                }
                n.subs.push(s);
            }
        }
        self.nodes[idx] = n;
        idx
    }

    fn sub(&mut self, depth: usize) -> Sub {
        self.sub_with(depth, None)
    }

    /// a sub-message with generated id / payload / reply_on / reply node around a given message
    fn sub_with(&mut self, depth: usize, given: Option<Msg>) -> Sub {
        let reply_on = match self.g.weighted(&self.p.reply_w) {
            0 => RO::Never,
            1 => RO::Success,
            2 => RO::Error,
            _ => RO::Always,
        };
        let id = match self.g.weighted(&[3, 3, 2, 1, 1]) {
            0 => 0,
            1 => 1,
            2 => self.g.below(5) as u64,
            3 => u64::MAX,
            _ => self.g.u64(),
        };
        // payload: 2-byte per-transaction counter (keeps (contract, id, payload) unique) + free tail
        self.uniq = self.uniq.wrapping_add(1);
        let mut payload = self.uniq.to_be_bytes().to_vec();
        match self.g.weighted(&[5, 3, 1]) {
            0 => {}
            1 => payload.extend(self.g.bytes_from(6, &[0x00, 0xFF, 0x7b, 0x22])),
            _ => {
                let len = self.g.below(250);
                payload.extend((0..len).map(|_| self.g.byte()));
            }
        }
        let msg = match given {
            Some(m) => m,
            None => self.msg(depth + 1),
        };
        let reply = if reply_on == RO::Never { usize::MAX } else { self.node(depth + 1, true) };
        Sub { id, payload: Hx(payload), reply_on, msg, reply }
    }

    fn msg(&mut self, depth: usize) -> Msg {
        let reg = if self.p.registry { 2 } else { 1 };
        let w: [u32; 8] = if self.p.sparse_ids {
            [8, 6, 1, 1, 1, 5, 3, 2]
        } else if depth == 0 {
            [18, 2 * reg, 2, 1, 2, reg, reg, reg]
        } else {
            [9, 2 * reg, 3, 1, 3, reg, reg, reg]
        };
        if self.staking && self.g.chance(1, 5) {
            return self.staking_msg();
        }
        match self.g.weighted(&w) {
            0 => {
                let node = self.node(depth, false);
                Msg::Exec { c: self.cref(), node, funds: self.coinspecs() }
            }
            1 => self.inst(depth),
            2 => {
                let to = self.aref();
                let mut coins = self.coinspecs();
                if coins.is_empty() {
                    coins.push(CoinSpec { denom: self.g.below(3) as u8, amt: Amt::Exact(1 + self.g.below(3) as u128) });
                }
                Msg::Send { to, coins }
            }
            3 => {
                let mut coins = self.coinspecs();
                if coins.is_empty() {
                    coins.push(CoinSpec { denom: self.g.below(3) as u8, amt: Amt::Exact(1) });
                }
                Msg::Burn { coins }
            }
            4 => Msg::Custom { tag: self.g.below(4) as u32, fail: self.g.chance(self.p.fail_p, 16) },
            5 => {
                let node = self.node(depth, false);
                Msg::Migrate { c: self.cref(), code: self.kref(), node }
            }
            6 => Msg::UpdateAdmin { c: self.cref(), admin: self.aref() },
            _ => Msg::ClearAdmin { c: self.cref() },
        }
    }

    fn inst(&mut self, depth: usize) -> Msg {
        let node = self.node(depth, false);
        let label = match self.g.weighted(&[12, 1, 2]) {
            0 => format!("label{}", self.g.below(4)),
            1 => String::new(),
            _ if self.g.chance(1, 3) => "long label ".repeat(self.g.pick(&[11usize, 12, 24, 100])) + "é",
            _ => self.g.pick(&["étiquette ✓", " padded ", "\ttab\n", " ", "\u{3000}", "x"]).to_string(),
        };
        let admin = match self.g.weighted(&[3, 4, 2]) {
            0 => None,
            1 => Some(ARef::User(self.g.below(N_USERS) as u8)),
            _ => Some(self.aref()),
        };
        let salt = match self.g.weighted(&[6, 4, 1]) {
            0 => None,
            1 => Some(Hx(vec![1 + self.g.below(3) as u8])),
            _ => Some(Hx(match self.g.below(3) {
                0 => vec![],
                1 => vec![7; 64],
                _ => vec![7; 65],
            })),
        };
        Msg::Inst { code: self.kref(), node, funds: self.coinspecs(), label, admin, salt }
    }
}

pub fn gen_codespec(g: &mut Gen, p: &Profile) -> CodeSpec {
    let family = match g.weighted(&[6, 3, 1]) {
        0 => Family::Puppet,
        1 => Family::WrappedFull,
        _ => Family::WrappedMin,
    };
    let how = match g.weighted(&[8, 3, if p.registry { 4 } else { 0 }, 3]) {
        0 => StoreHow::Plain,
        1 => StoreHow::WithCreator(g.below(N_USERS) as u8),
        2 => StoreHow::WithId(if p.sparse_ids {
            match g.weighted(&[3, 3, 2, 1, 1]) {
                0 => 1 + g.below(8) as u64,
                1 => 10 + g.below(90) as u64,
                2 => 0,
                3 => 1_000_000_007,
                _ => (1u64 << 62) + g.below(3) as u64,
            }
        } else {
            1 + g.below(8) as u64
        }),
        _ => StoreHow::Duplicate(KRef(match g.weighted(&[10, 1, 1]) {
            0 => g.below(6) as u8,
            1 => 255,
            _ => 254,
        })),
    };
    let own_checksum = if g.chance(1, 4) { Some(g.below(3) as u8) } else { None };
    CodeSpec { family, how, own_checksum }
}

pub fn gen_history(g: &mut Gen, p: &Profile, contracts_hint: &[&str]) -> History {
    let balances = (0..N_USERS).map(|_| [g.range(0, 400), g.range(0, 400), g.range(0, 60)]).collect();
    let ncodes = 2 + g.below(3);
    let mut codes = vec![CodeSpec { family: Family::Puppet, how: StoreHow::Plain, own_checksum: None }];
    for _ in 1..ncodes {
        let mut c = gen_codespec(g, p);
        if !p.sparse_ids {
            if let StoreHow::WithId(_) = c.how {
                c.how = StoreHow::Plain;
            }
        }
        codes.push(c);
    }
    let staking = g.chance(p.staking_p, 16);
    let addr_pool = if g.chance(if p.registry || p.hostile_keys { 4 } else { 1 }, 16) { (2 + g.below(3) as u8) | match g.below(6) { 0 | 1 => 128, 2 => 64, _ => 0 } } else { 0 };
    let setup = Setup { balances, codes, validators: if staking { 2 } else { 0 }, unbonding_time: g.pick(&[60u64, 0, 10]), addr_pool, api: g.below(2) as u8 };
    let hostile = hostile_keys(contracts_hint);
    let mut txs = vec![];
    let ntx = 2 + g.below(p.max_tx);
    let ninit = 2 + g.below(2);
    // scenario template: the first contract becomes its own admin, then migrates itself from inside an
    // execute, and the migrate entry point changes the registry entry of the same contract once more
    // (clears / hands over the admin, or migrates again)
    let self_admin = g.chance(if p.registry { 3 } else { 1 }, 16);
    // scenario template (query-heavy profile): a batch whose first message changes the registry entry of
    // the first contract and whose second message (not a wasm one) fails; then queries about that contract
    let failed_batch = !self_admin && p.query_tx_w >= 5 && g.chance(1, 6);
    let unbond_pair = staking && g.chance(1, 4);
    let storm = g.chance(1, 40);
    // scenario template: one account is credited seven times in a row (mints and a payment), never debited
    let credits = g.chance(1, 30);
    // scenario template: a new block, then the first contract is migrated to another code and back to its first one
    let there_and_back = !self_admin && !failed_batch && g.chance(1, 25);
    // scenario template: the first contract creates a child, its admin hands it over, a third party migrates the
    // child, then the old and the new admin each try to migrate the first contract
    let family = !self_admin && !failed_batch && !there_and_back && g.chance(1, 25);
    let wide_send = g.chance(1, 30);
    for t in 0..(ninit + ntx) {
        if failed_batch && t == ninit {
            let mut tg = TxGen { staking, g, p, nodes: vec![], qnodes: vec![], budget: p.max_nodes, uniq: 0, txno: 201, wcount: 0, hostile: hostile.clone() };
            let first = match tg.g.below(3) {
                0 => Msg::UpdateAdmin { c: CRef(0), admin: ARef::User(1) },
                1 => Msg::ClearAdmin { c: CRef(0) },
                _ => {
                    let node = tg.node(p.max_depth, false);
                    tg.nodes[node].fail = false;
                    Msg::Migrate { c: CRef(0), code: KRef(tg.g.below(6) as u8), node }
                }
            };
            let failing = Msg::Send { to: ARef::User(1), coins: vec![CoinSpec { denom: 0, amt: Amt::BalPlus(1) }] };
            let TxGen { nodes, qnodes, .. } = tg;
            txs.push(Tx { kind: TxKind::Multi { sender: ARef::User(0), msgs: vec![first, failing] }, nodes, qnodes });
            let mut tg = TxGen { staking, g, p, nodes: vec![], qnodes: vec![], budget: p.max_nodes, uniq: 0, txno: 202, wcount: 0, hostile: hostile.clone() };
            let qn = tg.qnode(0);
            let TxGen { nodes, qnodes, .. } = tg;
            txs.push(Tx { kind: TxKind::Queries(vec![AppQuery::Q(QSpec::ContractInfo(CRef(0))), AppQuery::ContractData(CRef(0)), AppQuery::Q(QSpec::Smart(CRef(0), qn))]), nodes, qnodes });
        }
        if unbond_pair && t == ninit {
            // scenario template: several unbondings that mature at the same instant (same block, different
            // delegators and validators), so the stored queue holds entries that tie on the completion time
            for u in 0..2u8 {
                let one = |v: u8, n: u128| (v, CoinSpec { denom: 1, amt: Amt::Exact(n) });
                let (d0, d1, u0, u1) = (one(0, 3), one(1, 2), one(0, 1), one(1, 1));
                let msgs = vec![
                    Msg::Delegate { v: d0.0, amt: d0.1 },
                    Msg::Delegate { v: d1.0, amt: d1.1 },
                    Msg::Undelegate { v: u0.0, amt: u0.1.clone() },
                    Msg::Undelegate { v: u1.0, amt: u1.1 },
                    // once more from the first validator: two entries of one delegation with one completion time
                    Msg::Undelegate { v: u0.0, amt: u0.1 },
                ];
                txs.push(Tx { kind: TxKind::Multi { sender: ARef::User(u), msgs }, nodes: vec![], qnodes: vec![] });
            }
            // a block passes before anything matures
            txs.push(Tx { kind: TxKind::Block { dh: 1, dt: 1, set: false, chain: None }, nodes: vec![], qnodes: vec![] });
        }
        if credits && t == ninit {
            let to = if g.bool() { ARef::C(CRef(0)) } else { ARef::User(2) };
            for i in 0..6u128 {
                txs.push(Tx { kind: TxKind::BankMint { to, coins: vec![CoinSpec { denom: 0, amt: Amt::Exact(1 + i) }] }, nodes: vec![], qnodes: vec![] });
            }
            let mut tg = TxGen { staking, g, p, nodes: vec![], qnodes: vec![], budget: p.max_nodes, uniq: 0, txno: 214, wcount: 0, hostile: hostile.clone() };
            let node = tg.node(p.max_depth, false);
            let TxGen { nodes, qnodes, .. } = tg;
            let msg = match to {
                ARef::C(c) => Msg::Exec { c, node, funds: vec![CoinSpec { denom: 0, amt: Amt::Exact(1) }] },
                _ => Msg::Send { to, coins: vec![CoinSpec { denom: 0, amt: Amt::Exact(1) }] },
            };
            txs.push(Tx { kind: TxKind::Exec { sender: ARef::User(0), msg, via: Via::Execute }, nodes, qnodes });
        }
        if family && t == ninit {
            {
                let mut tg = TxGen { staking, g, p, nodes: vec![], qnodes: vec![], budget: p.max_nodes, uniq: 0, txno: 210, wcount: 0, hostile: hostile.clone() };
                let leaf = tg.node(p.max_depth, false);
                tg.nodes[leaf].fail = false;
                let child = Msg::Inst { code: KRef(tg.g.below(3) as u8), node: leaf, funds: vec![], label: "child".into(), admin: Some(ARef::User(2)), salt: None };
                let root = tg.node(p.max_depth, false);
                tg.nodes[root].fail = false;
                let mut sub = tg.sub_with(p.max_depth, Some(child));
                if sub.reply != usize::MAX {
                    tg.nodes[sub.reply].fail = false;
                }
                if sub.reply_on == RO::Error {
                    sub.reply_on = RO::Never;
                }
                tg.nodes[root].subs.push(sub);
                let TxGen { nodes, qnodes, .. } = tg;
                txs.push(Tx { kind: TxKind::Exec { sender: ARef::User(0), msg: Msg::Exec { c: CRef(0), node: root, funds: vec![] }, via: Via::Execute }, nodes, qnodes });
            }
            txs.push(Tx { kind: TxKind::Exec { sender: ARef::User(0), msg: Msg::UpdateAdmin { c: CRef(0), admin: ARef::User(1) }, via: Via::Execute }, nodes: vec![], qnodes: vec![] });
            for (who, target, txno) in [(2u8, ninit as u8, 211u8), (0, 0, 212), (1, 0, 213)] {
                let mut tg = TxGen { staking, g, p, nodes: vec![], qnodes: vec![], budget: p.max_nodes, uniq: 0, txno, wcount: 0, hostile: hostile.clone() };
                let node = tg.node(p.max_depth, false);
                tg.nodes[node].fail = false;
                let code = KRef(tg.g.below(3) as u8);
                let TxGen { nodes, qnodes, .. } = tg;
                txs.push(Tx { kind: TxKind::Exec { sender: ARef::User(who), msg: Msg::Migrate { c: CRef(target), code, node }, via: Via::Execute }, nodes, qnodes });
            }
        }
        if there_and_back && t == ninit {
            txs.push(Tx { kind: TxKind::Block { dh: 1, dt: 5, set: false, chain: None }, nodes: vec![], qnodes: vec![] });
            for code in [1u8, 0] {
                let mut tg = TxGen { staking, g, p, nodes: vec![], qnodes: vec![], budget: p.max_nodes, uniq: 0, txno: 204 + code, wcount: 0, hostile: hostile.clone() };
                let node = tg.node(p.max_depth.saturating_sub(1), false);
                let TxGen { nodes, qnodes, .. } = tg;
                txs.push(Tx { kind: TxKind::Exec { sender: ARef::User(0), msg: Msg::Migrate { c: CRef(0), code: KRef(code), node }, via: Via::Execute }, nodes, qnodes });
            }
        }
        if storm && t == ninit {
            // scenario template: one call whose entry point dispatches several dozen sub-messages that fail and
            // are caught by reply, then two that succeed; whatever a caught failure leaves behind adds up
            let mut tg = TxGen { staking, g, p, nodes: vec![], qnodes: vec![], budget: 200, uniq: 0, txno: 203, wcount: 0, hostile: hostile.clone() };
            let root = tg.node(p.max_depth, false);
            tg.nodes[root].fail = false;
            let k = 33 + tg.g.below(6);
            for i in 0..k + 2 {
                let leaf = tg.node(p.max_depth, false);
                tg.nodes[leaf].fail = i < k;
                let target = CRef(1 + tg.g.below(2) as u8);
                let mut sub = tg.sub_with(p.max_depth, Some(Msg::Exec { c: target, node: leaf, funds: vec![] }));
                sub.reply_on = if i < k { if tg.g.bool() { RO::Error } else { RO::Always } } else { tg.g.pick(&[RO::Success, RO::Always, RO::Never]) };
                if sub.reply == usize::MAX && sub.reply_on != RO::Never {
                    sub.reply = tg.node(p.max_depth + 1, true);
                }
                if sub.reply != usize::MAX {
                    tg.nodes[sub.reply].fail = false;
                }
                tg.nodes[root].subs.push(sub);
            }
            let kind = TxKind::Exec { sender: ARef::User(0), msg: Msg::Exec { c: CRef(0), node: root, funds: vec![] }, via: Via::Execute };
            let TxGen { nodes, qnodes, .. } = tg;
            txs.push(Tx { kind, nodes, qnodes });
        }
        if wide_send && t == ninit {
            // scenario template: an account holding every denomination sends all of them in one message
            let all = |base: u128| -> Vec<CoinSpec> { (0..DENOMS.len()).rev().map(|d| CoinSpec { denom: d as u8, amt: Amt::Exact(base + d as u128) }).collect() };
            txs.push(Tx { kind: TxKind::BankMint { to: ARef::User(0), coins: all(3) }, nodes: vec![], qnodes: vec![] });
            let mut coins = all(1);
            let r = g.below(coins.len());
            coins.rotate_left(r);
            let to = if g.bool() { ARef::User(1) } else { ARef::C(CRef(0)) };
            txs.push(Tx { kind: TxKind::Exec { sender: ARef::User(0), msg: Msg::Send { to, coins }, via: if g.bool() { Via::Execute } else { Via::Multi } }, nodes: vec![], qnodes: vec![] });
        }
        if self_admin && t == ninit {
            txs.push(Tx { kind: TxKind::Exec { sender: ARef::User(0), msg: Msg::UpdateAdmin { c: CRef(0), admin: ARef::C(CRef(0)) }, via: Via::Execute }, nodes: vec![], qnodes: vec![] });
            let mut tg = TxGen { staking, g, p, nodes: vec![], qnodes: vec![], budget: p.max_nodes, uniq: 0, txno: 200, wcount: 0, hostile: hostile.clone() };
            let n2 = tg.node(p.max_depth, false);
            let inner = match tg.g.below(3) {
                0 => Msg::ClearAdmin { c: CRef(0) },
                1 => Msg::UpdateAdmin { c: CRef(0), admin: ARef::User(1) },
                _ => Msg::Migrate { c: CRef(0), code: KRef(tg.g.below(6) as u8), node: n2 },
            };
            let n1 = tg.node(p.max_depth, false);
            let s1 = tg.sub_with(p.max_depth, Some(inner));
            tg.nodes[n1].subs.push(s1);
            tg.nodes[n1].fail = false;
            let n0 = tg.node(p.max_depth, false);
            let mig = Msg::Migrate { c: CRef(0), code: KRef(tg.g.below(6) as u8), node: n1 };
            let s0 = tg.sub_with(p.max_depth, Some(mig));
            tg.nodes[n0].subs.push(s0);
            tg.nodes[n0].fail = false;
            let kind = TxKind::Exec { sender: ARef::User(tg.g.below(N_USERS) as u8), msg: Msg::Exec { c: CRef(0), node: n0, funds: vec![] }, via: Via::Execute };
            let TxGen { nodes, qnodes, .. } = tg;
            txs.push(Tx { kind, nodes, qnodes });
        }
        if g.exhausted() && t > ninit {
            break;
        }
        let mut tg = TxGen { staking, g, p, nodes: vec![], qnodes: vec![], budget: p.max_nodes, uniq: 0, txno: t as u8, wcount: 0, hostile: hostile.clone() };
        let kind = if t < ninit {
            // initial contracts: plain instantiations by users (first two from the same code)
            let node = tg.node(p.max_depth, false); // leaf-ish init node (no sub-messages)
            let code = if t < 2 { KRef(0) } else { KRef(tg.g.below(6) as u8) };
            let admin = match tg.g.below(3) {
                _ if (self_admin || failed_batch || there_and_back || family) && t == 0 => Some(ARef::User(0)),
                0 => None,
                _ => Some(ARef::User(tg.g.below(N_USERS) as u8)),
            };
            let salt = if t == 2 { Some(Hx(vec![9])) } else { None };
            let mut msg = Msg::Inst { code, node, funds: vec![], label: format!("init{}", t), admin, salt };
            if tg.g.chance(1, 2) {
                if let Msg::Inst { funds, .. } = &mut msg {
                    *funds = vec![CoinSpec { denom: tg.g.below(3) as u8, amt: Amt::Exact(1 + tg.g.below(20) as u128) }];
                }
            }
            TxKind::Exec { sender: ARef::User(tg.g.below(N_USERS) as u8), msg, via: if tg.g.bool() { Via::Helper } else { Via::Execute } }
        } else {
            match tg.g.weighted(&[16, p.multi_w, p.sudo_w, 1, p.block_w, p.store_w, p.query_tx_w, if staking { p.sudo_w.min(2) } else { 0 }]) {
                0 => {
                    let msg = tg.msg(0);
                    let sender = if tg.g.chance(1, 8) { tg.aref() } else { ARef::User(tg.g.below(N_USERS) as u8) };
                    let via = match tg.g.weighted(&[4, 2, 3]) {
                        0 => Via::Execute,
                        1 => Via::Multi,
                        _ => Via::Helper,
                    };
                    TxKind::Exec { sender, msg, via }
                }
                1 => {
                    let n = tg.g.weighted(&[1, 2, 4, 3, 2]);
                    let mut msgs: Vec<Msg> = (0..n).map(|_| tg.msg(0)).collect();
                    // sometimes a later message of the batch addresses the contract an earlier one creates
                    let mut seen_inst = false;
                    for m in msgs.iter_mut() {
                        match m {
                            Msg::Inst { .. } => seen_inst = true,
                            Msg::Exec { c, .. } | Msg::Migrate { c, .. } | Msg::UpdateAdmin { c, .. } | Msg::ClearAdmin { c } if seen_inst && tg.g.chance(1, 2) => *c = CRef(252),
                            _ => {}
                        }
                    }
                    if n >= 2 && tg.g.chance(1, 6) {
                        // ... or the batch is exactly that: instantiate, then call the new contract
                        let first = tg.inst(0);
                        let node = tg.node(0, false);
                        msgs.truncate(n - 2);
                        msgs.insert(0, Msg::Exec { c: CRef(252), node, funds: vec![] });
                        msgs.insert(0, first);
                    }
                    TxKind::Multi { sender: ARef::User(tg.g.below(N_USERS) as u8), msgs }
                }
                2 => {
                    let node = tg.node(0, false);
                    TxKind::WasmSudo { c: tg.cref(), node, via_sudo: tg.g.bool() }
                }
                3 => {
                    let to = tg.aref();
                    let n = tg.g.weighted(&[1, 6, 2]);
                    let mut coins: Vec<CoinSpec> = (0..n).map(|_| CoinSpec { denom: tg.g.below(3) as u8, amt: Amt::Exact(tg.g.weighted(&[1, 8]) as u128 * (1 + tg.g.below(50) as u128)) }).collect();
                    // sometimes every denomination at once, listed in descending order
                    if tg.g.chance(1, 5) {
                        coins = (0..DENOMS.len()).rev().map(|d| CoinSpec { denom: d as u8, amt: Amt::Exact(1 + d as u128) }).collect();
                    }
                    TxKind::BankMint { to, coins }
                }
                4 => {
                    let chain = if tg.g.chance(1, 4) { Some(tg.g.below(3) as u8) } else { None };
                    // sometimes only the chain id changes (neither height nor time)
                    let still = chain.is_some() && tg.g.chance(1, 2);
                    TxKind::Block { dh: if still { 0 } else { tg.g.below(4) as u64 }, dt: if still { 0 } else { tg.g.below(100) as u64 }, set: tg.g.bool(), chain }
                }
                5 => TxKind::Store(gen_codespec(tg.g, p)),
                7 => TxKind::Slash { v: tg.vidx(), percent: tg.g.below(3) as u8 },
                _ => {
                    let n = 1 + tg.g.below(4);
                    TxKind::Queries(
                        (0..n)
                            .map(|_| match tg.g.weighted(&[6, 1, 1]) {
                                0 => AppQuery::Q(tg.qspec(0)),
                                1 => AppQuery::ContractData(tg.cref()),
                                _ => AppQuery::Dump(tg.cref()),
                            })
                            .collect(),
                    )
                }
            }
        };
        let TxGen { nodes, qnodes, .. } = tg;
        txs.push(Tx { kind, nodes, qnodes });
    }
    History { setup, txs }
}
