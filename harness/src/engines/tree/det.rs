//! C19 — the simulator is deterministic and instances do not interfere.
//!
//! Differential between executions of the same generated history: alone on a fresh App (A);
//! interleaved step by step with an unrelated history on another App in the same thread (B);
//! in a second OS thread concurrently with another instance (D); and alone again afterwards (A').
//! Full transcripts (results, events, data, traces, ids, addresses, checksums, storage digests)
//! must be identical. No reference model judges the results; the interpreter is only used to
//! turn symbolic histories into concrete messages (identically for every run).

use super::gen::{gen_history, Profile};
use super::types::*;
use super::{hint_contracts, shrink_history, TreeCheck, World};
use crate::driver::{Budget, Check, Cx, Failure, Spec, Tier};
use crate::gen::Gen;
use crate::util::{fnv, scan};
use serde::{Deserialize, Serialize};
use std::collections::BTreeSet;

#[derive(Clone, Debug, Serialize, Deserialize)]
pub struct Case {
    pub history: History,
    pub other: History,
}

pub struct DetCheck {
    tier: Tier,
    profile: Profile,
}

struct Runner {
    w: World,
    h: History,
    next: usize,
    helper: TreeCheck,
}

impl Runner {
    fn new(h: &History) -> Runner {
        Runner::with_prefix(h, "cosmwasm")
    }

    fn with_prefix(h: &History, prefix: &'static str) -> Runner {
        Runner { w: World::with_prefix(&h.setup, prefix), h: h.clone(), next: 0, helper: <TreeCheck as Check>::new("C19", Tier::Quick) }
    }

    fn done(&self) -> bool {
        self.next >= self.h.txs.len()
    }

    /// executes the next step and returns its transcript record
    fn step(&mut self) -> String {
        let tx = self.h.txs[self.next].clone();
        self.next += 1;
        self.w.enter();
        let none = BTreeSet::new();
        match &tx.kind {
            TxKind::Store(spec) => {
                let before: Vec<u64> = self.w.fx.codes.keys().copied().collect();
                let d = self.w.store(spec);
                let after: Vec<(u64, String, String)> = self.w.fx.codes.iter().map(|(k, c)| (*k, c.creator.clone(), hex::encode(&c.checksum))).collect();
                format!("store before={:?} after={:?} notes={}", before, after, d.len())
            }
            TxKind::Block { dh, dt, set, chain } => {
                let _ = self.w.apply_block(*dh, *dt, *set, *chain);
                format!("block {:?}", self.w.app.block_info())
            }
            TxKind::Queries(qs) => {
                // answers are part of the trace-free transcript: evaluate through the real App only
                let _ = self.helper.app_queries(&mut self.w, &tx, qs);
                let mut answers = vec![];
                for q in qs {
                    if let AppQuery::Q(spec) = q {
                        let it = super::model::Interp::new(self.w.st.clone(), &self.w.fx, &tx, &none);
                        let req = cosmwasm_std::to_json_vec(&it.resolve_query(spec)).unwrap();
                        answers.push(super::puppet::raw_query(&self.w.app, &req));
                        let _ = super::puppet::take_trace();
                    }
                }
                format!("queries {:?}", answers)
            }

            _ => {
                let out = self.w.run_variant(&tx, &none);
                out.actual
            }
        }
    }

    fn digest(&self) -> String {
        let s = scan(self.w.app.storage());
        format!("final storage {} entries digest {:016x}", s.len(), fnv(&s.iter().flat_map(|(k, v)| [k.as_slice(), b"=", v.as_slice(), b";"].concat()).collect::<Vec<u8>>()))
    }
}

fn run_alone(h: &History) -> Vec<String> {
    let mut r = Runner::new(h);
    let mut t = vec![];
    while !r.done() {
        t.push(r.step());
    }
    t.push(r.digest());
    t
}

/// What `vcheck --c19-child` (phase F) is given: histories to execute first, each on an App of its own,
/// and the history whose transcript is wanted.
#[derive(Serialize, Deserialize)]
pub struct ChildJob {
    pub before: Vec<History>,
    pub history: History,
}

/// The transcript of `job.history` in the current process, after `job.before`.
pub fn child_transcript(job: ChildJob) -> Vec<String> {
    std::thread::Builder::new()
        .stack_size(64 << 20)
        .spawn(move || {
            for h in &job.before {
                let _ = run_alone(h);
            }
            run_alone(&job.history)
        })
        .unwrap()
        .join()
        .unwrap_or_else(|_| vec!["<panicked>".into()])
}

/// Phase F: the history in a *fresh process*, after the given other histories (none: nothing else has
/// ever happened in that process).
fn run_in_fresh_process(before: &[&History], h: &History) -> Result<Vec<String>, Failure> {
    static N: std::sync::atomic::AtomicU64 = std::sync::atomic::AtomicU64::new(0);
    let n = N.fetch_add(1, std::sync::atomic::Ordering::Relaxed);
    let base = std::env::temp_dir().join(format!("vc19-{}-{}", std::process::id(), n));
    let (inp, outp) = (base.with_extension("in.json"), base.with_extension("out.json"));
    let io = |e: std::io::Error| Failure::new("harness:c19-child", format!("fresh-process run: {}", e));
    std::fs::write(&inp, serde_json::to_vec(&ChildJob { before: before.iter().map(|x| (*x).clone()).collect(), history: h.clone() }).unwrap()).map_err(io)?;
    let exe = std::env::current_exe().map_err(io)?;
    let status = std::process::Command::new(exe).arg("--c19-child").arg(&inp).arg(&outp).stdout(std::process::Stdio::null()).stderr(std::process::Stdio::null()).status();
    let res = status.map_err(io).and_then(|st| {
        if !st.success() {
            return Err(Failure::new("harness:c19-child", format!("fresh-process run exited with {:?}", st.code())));
        }
        let bytes = std::fs::read(&outp).map_err(io)?;
        serde_json::from_slice::<Vec<String>>(&bytes).map_err(|e| Failure::new("harness:c19-child", format!("fresh-process transcript unreadable: {}", e)))
    });
    let _ = std::fs::remove_file(&inp);
    let _ = std::fs::remove_file(&outp);
    res
}

/// explicit code ids beyond 32 bits (anything that narrows an id is exercised by them)
fn has_wide_ids(h: &History) -> bool {
    let wide = |c: &CodeSpec| matches!(c.how, StoreHow::WithId(id) if id > u32::MAX as u64);
    h.setup.codes.iter().any(wide) || h.txs.iter().any(|t| matches!(&t.kind, TxKind::Store(c) if wide(c)))
}

fn first_diff(a: &[String], b: &[String]) -> Option<(usize, String, String)> {
    for i in 0..a.len().max(b.len()) {
        let (x, y) = (a.get(i).cloned().unwrap_or_default(), b.get(i).cloned().unwrap_or_default());
        if x != y {
            let cut = |s: &str| s.chars().take(700).collect::<String>();
            return Some((i, cut(&x), cut(&y)));
        }
    }
    None
}

impl Check for DetCheck {
    type Case = Case;

    fn new(_id: &str, tier: Tier) -> Self {
        DetCheck { tier, profile: Profile::for_id("C19", tier.is_thorough()) }
    }

    fn spec(_id: &str) -> Spec {
        Spec {
            id: "C19",
            level: "exploration",
            rule: "generated: a tree-engine history (setup, code stores incl. duplicates and explicit ids, instantiate/instantiate2, nested message trees with failures, block updates, queries) plus a second unrelated history; the first is executed (A) alone on a fresh App, (B) interleaved step by step with the second history on two other Apps (one with another bech32 prefix, one with the same prefix, hence the same addresses and ids) in the same thread and with a further App whose Api is the other checksum variant with the same prefix and which keeps validating the Bech32m spellings of the users' addresses, (D) in a second OS thread concurrently with a third thread running the second history, (A') alone again afterwards, and - one case in eight, and whenever explicit code ids exceed 32 bits - (F) alone in a fresh process and in a fresh process after the second history; in a quarter of the cases the second history is the first one with explicit code ids narrowed to 32 or 8 bits; before (A) the second history has been executed in the same process (P); transcripts (Ok/Err, events, data, invocation traces, code ids, addresses, checksums, storage digest per step and final) must be identical. Non-trivial: history with >=1 failing call, >=1 classic instantiation and >=1 code stored after setup, interleaved with >=5 steps of the other instance; distinct = distinct serialised case",
            assumptions: vec!["only Ok/Err is compared for errors, not error text", "a dependence on state no generated operation touches, or on wall-clock time at a coarser grain than one run, is not observable"],
            floor_quick: 60,
        }
    }

    fn budget(_id: &str, tier: Tier) -> Budget {
        match tier {
            Tier::Quick => Budget { cases: 5000, max_bytes: 12000 },
            Tier::Thorough => Budget { cases: 40_000, max_bytes: 20000 },
        }
    }

    fn generate(&self, g: &mut Gen) -> Case {
        let _ = self.tier;
        let hint = hint_contracts();
        let refs: Vec<&str> = hint.iter().map(|s| s.as_str()).collect();
        let history = gen_history(g, &self.profile, &refs);
        let mut other = gen_history(g, &self.profile, &refs);
        // sometimes the other instance is a sibling of the one under test: the same history (same ids, same
        // addresses, same keys), with explicit code ids narrowed to their low 32 / 8 bits
        if g.chance(1, 4) {
            other = history.clone();
            let bits = if g.bool() { 32 } else { 8 };
            let narrow = |c: &mut CodeSpec| {
                if let StoreHow::WithId(id) = &mut c.how {
                    *id &= (1u64 << bits) - 1;
                }
            };
            other.setup.codes.iter_mut().for_each(narrow);
            for t in other.txs.iter_mut() {
                if let TxKind::Store(c) = &mut t.kind {
                    narrow(c);
                }
            }
        }
        Case { history, other }
    }

    fn execute(&self, case: &Case, cx: &mut Cx) -> Result<(), Failure> {
        // P: another instance has been busy in this process before the one under test is even built
        let _ = run_alone(&case.other);
        // A: alone
        let ta = run_alone(&case.history);
        // B: interleaved with another instance in the same thread
        // the other instance is configured differently (another bech32 prefix) and moves first
        let mut c = Runner::with_prefix(&case.other, "juno");
        let mut b = Runner::new(&case.history);
        // a third, differently flavoured bystander: an App whose Api is the *other* codec (Bech32m) with
        // the *same* prefix as the instance under test; it keeps validating (balance queries, mints)
        // exactly those texts that the instance under test must keep rejecting (`ARef::Alien`)
        b.w.enter();
        let aliens: Vec<String> = b.w.fx.users.iter().map(|u| super::model::alien_text(u)).collect();
        let mut flavour = cw_multi_test::AppBuilder::new().with_api(cw_multi_test::MockApiBech32m::new("cosmwasm")).build(cw_multi_test::no_init);
        // a fourth one: the same kind of App with the SAME prefix running the other history, so that
        // the two instances own contracts and codes under the same addresses and ids with different content
        let mut c2 = Runner::new(&case.other);
        let mut tb = vec![];
        let mut interleaved = 0;
        while !b.done() {
            if !c.done() {
                let _ = c.step();
                interleaved += 1;
            }
            if !c2.done() {
                let _ = c2.step();
            }
            for t in &aliens {
                let _ = flavour.wrap().query_balance(t.clone(), "uatom");
                let _ = flavour.sudo(cw_multi_test::SudoMsg::Bank(cw_multi_test::BankSudo::Mint { to_address: t.clone(), amount: vec![cosmwasm_std::coin(1, "uatom")] }));
            }
            tb.push(b.step());
        }
        tb.push(b.digest());
        if let Some((i, x, y)) = first_diff(&ta, &tb) {
            return Err(Failure::new("C19:interleaved-instance-differs", format!("step {}: alone: {} | interleaved with another App: {}", i, x, y)));
        }
        // D: second OS thread, concurrently with a thread running the other history
        let (h1, h2) = (case.history.clone(), case.other.clone());
        let t1 = std::thread::Builder::new().stack_size(64 << 20).spawn(move || run_alone(&h1)).unwrap();
        let t2 = std::thread::Builder::new()
            .stack_size(64 << 20)
            .spawn(move || {
                let mut r = Runner::with_prefix(&h2, "osmo");
                while !r.done() {
                    let _ = r.step();
                }
            })
            .unwrap();
        let td = t1.join().map_err(|_| Failure::new("C19:thread-panicked", "run in a second thread panicked"))?;
        let _ = t2.join();
        if let Some((i, x, y)) = first_diff(&ta, &td) {
            return Err(Failure::new("C19:other-thread-differs", format!("step {}: main thread: {} | second thread: {}", i, x, y)));
        }
        // A': alone again, after everything else
        let ta2 = run_alone(&case.history);
        if let Some((i, x, y)) = first_diff(&ta, &ta2) {
            return Err(Failure::new("C19:rerun-differs", format!("step {}: first run: {} | re-run: {}", i, x, y)));
        }
        // F: alone in a fresh process, where no other instance has ever existed, against a fresh process in which
        // the other history ran first (one case in eight, and every history with code ids beyond 32 bits)
        let pick = fnv(&serde_json::to_vec(&case.history).unwrap_or_default()) % 8 == 0;
        if pick || has_wide_ids(&case.history) {
            // (both sides run in processes of their own, so that the verdict is a function of the case alone:
            // this process has seen thousands of other cases)
            let tf = run_in_fresh_process(&[], &case.history)?;
            let tp = run_in_fresh_process(&[&case.other], &case.history)?;
            cx.label("fresh-process-run");
            if let Some((i, x, y)) = first_diff(&tf, &tp) {
                return Err(Failure::new("C19:fresh-process-differs", format!("step {}: alone in a fresh process: {} | in a fresh process in which another instance has been busy before: {}", i, x, y)));
            }
        }
        // classification
        let failing = ta.iter().any(|s| s.starts_with("ok=false"));
        let classic = case.history.txs.iter().any(|t| matches!(&t.kind, TxKind::Exec { msg: Msg::Inst { salt: None, .. }, .. }));
        let stored = case.history.txs.iter().any(|t| matches!(t.kind, TxKind::Store(_)));
        if failing {
            cx.label("history:has-failing-call");
        }
        if stored {
            cx.label("history:stores-code");
        }
        cx.count("steps-interleaved", interleaved as u64);
        if failing && classic && stored && interleaved >= 5 {
            cx.mark_nontrivial();
        }
        Ok(())
    }

    fn shrink(&self, case: &Case) -> Vec<Case> {
        let mut out: Vec<Case> = shrink_history(&case.history).into_iter().map(|h| Case { history: h, other: case.other.clone() }).collect();
        if !case.other.txs.is_empty() {
            let mut o = case.other.clone();
            o.txs.clear();
            out.insert(0, Case { history: case.history.clone(), other: o });
        }
        out
    }
}
