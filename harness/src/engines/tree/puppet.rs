//! Scripted contracts ("puppets"), the recording custom module and the out-of-band runtime
//! (resolved plan + invocation trace). The trace survives rollbacks, which lets the oracles see
//! calls whose effects were discarded.

use super::types::{Family, Read, Write};
use cosmwasm_std::{
    to_json_binary, Addr, Api, Binary, BlockInfo, Checksum, Coin, ContractResult, CosmosMsg, CustomMsg, CustomQuery, Deps, DepsMut, Empty, Env, Event, MessageInfo, Order, Querier, Reply, Response,
    StdError, StdResult, Storage, SubMsg, SubMsgResult, SystemResult,
};
use cw_multi_test::error::{AnyError, AnyResult};
use cw_multi_test::{AppResponse, Contract, ContractWrapper, CosmosRouter, Module};
use schemars::JsonSchema;
use serde::de::DeserializeOwned;
use serde::{Deserialize, Serialize};
use std::cell::RefCell;
use std::collections::BTreeMap;

#[derive(Serialize, Deserialize, Clone, Debug, PartialEq, Eq, JsonSchema)]
pub struct XMsg {
    pub tag: u32,
    pub fail: bool,
}
impl CustomMsg for XMsg {}

#[derive(Serialize, Deserialize, Clone, Debug, PartialEq, Eq, JsonSchema)]
pub struct XQuery {
    pub tag: u32,
}
impl CustomQuery for XQuery {}

#[derive(Serialize, Deserialize, Clone, Debug, PartialEq, Eq)]
pub struct XQueryResp {
    pub tag: u32,
    pub marker: Option<String>,
}

#[derive(Serialize, Deserialize, Clone, Debug)]
pub struct PMsg {
    pub n: usize,
}

#[derive(Clone, Copy, Debug, PartialEq, Eq, Serialize, PartialOrd, Ord)]
pub enum Kind {
    Instantiate,
    Execute,
    Reply,
    Sudo,
    Migrate,
    Query,
}

#[derive(Clone, Debug, PartialEq, Eq, Serialize)]
pub enum ReadRes {
    Got(Option<Vec<u8>>),
    Scanned(Vec<(Vec<u8>, Vec<u8>)>),
}

/// Ok(JSON text of the answer) / Err (error text is never compared)
pub type QRes = Result<String, ()>;

#[derive(Clone, Debug, PartialEq, Eq, Serialize)]
pub struct ReplyRec {
    pub id: u64,
    pub payload: Vec<u8>,
    pub ok: bool,
    pub events: Vec<Event>,
    pub data: Option<Vec<u8>>,
    /// `value` of every entry of msg_responses
    pub msg_values: Vec<Vec<u8>>,
}

/// Everything else an entry point was handed (the complete `Env` and `Reply` as JSON). Not judged
/// against the reference interpreter (always compares equal); part of the transcripts that the
/// determinism check (C19) compares between runs.
#[derive(Clone, Debug, Default, Serialize)]
pub struct Unjudged(pub String);
impl PartialEq for Unjudged {
    fn eq(&self, _: &Self) -> bool {
        true
    }
}
impl Eq for Unjudged {}

#[derive(Clone, Debug, PartialEq, Eq, Serialize)]
pub struct TraceEntry {
    pub kind: Kind,
    pub code_tag: u32,
    pub node: Option<usize>,
    pub contract: String,
    pub block: (u64, u64, String),
    pub sender: Option<String>,
    pub funds: Vec<(String, u128)>,
    /// all balances of the contract seen through the querier at entry
    pub own_balance: Vec<(String, u128)>,
    pub reply: Option<ReplyRec>,
    pub pre_queries: Vec<QRes>,
    pub reads: Vec<ReadRes>,
    pub queries: Vec<QRes>,
    pub raw: Unjudged,
    /// what the puppet found inconsistent about its own storage after its writes (no reference involved)
    pub complaint: Unjudged,
}

/// Concrete (resolved) behaviour of one node, produced by the reference interpreter.
#[derive(Clone, Debug, Default)]
pub struct NodeRt {
    pub pre_queries: Vec<Vec<u8>>,
    pub reads: Vec<Read>,
    pub writes: Vec<Write>,
    pub queries: Vec<Vec<u8>>,
    pub fail: bool,
    pub attrs: Vec<(String, String)>,
    pub events: Vec<(String, Vec<(String, String)>)>,
    pub data: Option<Vec<u8>>,
    pub subs: Vec<SubMsg<XMsg>>,
}

#[derive(Clone, Debug, Default)]
pub struct QNodeRt {
    pub reads: Vec<Read>,
    pub queries: Vec<Vec<u8>>,
    pub fail: bool,
}

#[derive(Default)]
pub struct Runtime {
    pub nodes: BTreeMap<usize, NodeRt>,
    pub qnodes: BTreeMap<usize, QNodeRt>,
    /// (dispatching contract, id, payload) -> node run by its reply entry point
    pub reply_lookup: BTreeMap<(String, u64, Vec<u8>), usize>,
    /// replies the reference expects, per (contract, id, payload) in delivery order: sibling
    /// sub-messages may share id and payload, each still has a reply node of its own
    pub reply_queue: BTreeMap<(String, u64, Vec<u8>), std::collections::VecDeque<usize>>,
    pub trace: Vec<TraceEntry>,
    /// custom module log: (sender, tag, fail)
    pub xlog: Vec<(String, u32, bool)>,
}

thread_local! {
    pub static RT: RefCell<Runtime> = RefCell::new(Runtime::default());
}

pub fn install(nodes: BTreeMap<usize, NodeRt>, qnodes: BTreeMap<usize, QNodeRt>, reply_lookup: BTreeMap<(String, u64, Vec<u8>), usize>) {
    RT.with(|rt| {
        let mut rt = rt.borrow_mut();
        rt.nodes = nodes;
        rt.qnodes = qnodes;
        rt.reply_lookup = reply_lookup;
        rt.reply_queue.clear();
        rt.trace.clear();
        rt.xlog.clear();
    });
}

pub fn install_reply_queue(q: BTreeMap<(String, u64, Vec<u8>), std::collections::VecDeque<usize>>) {
    RT.with(|rt| rt.borrow_mut().reply_queue = q);
}

pub fn take_trace() -> (Vec<TraceEntry>, Vec<(String, u32, bool)>) {
    RT.with(|rt| {
        let mut rt = rt.borrow_mut();
        (std::mem::take(&mut rt.trace), std::mem::take(&mut rt.xlog))
    })
}

fn coins_rec(c: &[Coin]) -> Vec<(String, u128)> {
    c.iter().map(|c| (c.denom.clone(), c.amount.u128())).collect()
}

pub fn raw_query(q: &dyn Querier, req: &[u8]) -> QRes {
    match q.raw_query(req) {
        SystemResult::Ok(ContractResult::Ok(bin)) => Ok(String::from_utf8_lossy(bin.as_slice()).into_owned()),
        _ => Err(()),
    }
}

fn do_reads(storage: &dyn Storage, reads: &[Read]) -> Vec<ReadRes> {
    reads
        .iter()
        .map(|r| match r {
            Read::Get(k) => ReadRes::Got(storage.get(&k.0)),
            Read::Scan => {
                let mut all: Vec<(Vec<u8>, Vec<u8>)> = storage.range(None, None, Order::Ascending).collect();
                // the other iteration forms a contract can use must show the same entries
                let mut keys_desc: Vec<Vec<u8>> = storage.range_keys(None, None, Order::Descending).collect();
                keys_desc.reverse();
                let vals: Vec<Vec<u8>> = storage.range_values(None, None, Order::Ascending).collect();
                if keys_desc != all.iter().map(|(k, _)| k.clone()).collect::<Vec<_>>() || vals != all.iter().map(|(_, v)| v.clone()).collect::<Vec<_>>() {
                    all.push((b"<range_keys / range_values disagree with range>".to_vec(), format!("{} keys, {} values", keys_desc.len(), vals.len()).into_bytes()));
                }
                ReadRes::Scanned(all)
            }
        })
        .collect()
}

/// After its writes a contract must see exactly them: `get` of every touched key, the full scan, and key /
/// value scans bounded on both sides, in both orders, all describe one and the same map.
fn own_writes_readable(storage: &dyn Storage, writes: &[Write]) -> Option<String> {
    let mut touched: std::collections::BTreeMap<&[u8], Option<&[u8]>> = Default::default();
    for w in writes {
        match w {
            Write::Set(k, v) => touched.insert(&k.0, Some(&v.0)),
            Write::Remove(k) => touched.insert(&k.0, None),
        };
    }
    let all: Vec<(Vec<u8>, Vec<u8>)> = storage.range(None, None, Order::Ascending).collect();
    for (k, want) in &touched {
        let got = storage.get(k);
        if got.as_deref() != *want {
            return Some(format!("get({}) = {:?} after own write {:?}", hex::encode(k), got.map(hex::encode), want.map(hex::encode)));
        }
        let listed = all.iter().filter(|(x, _)| x.as_slice() == *k).map(|(_, v)| v.as_slice()).collect::<Vec<_>>();
        if listed != want.iter().copied().collect::<Vec<_>>() {
            return Some(format!("scan lists key {} {} times after own write {:?}", hex::encode(k), listed.len(), want.map(hex::encode)));
        }
    }
    // bounded on both sides: from the smallest possible key up to (excluding) a bound beyond the short keys
    let (lo, hi): (&[u8], &[u8]) = (b"", &[0xff, 0xff, 0xff, 0xff, 0xff]);
    let inside: Vec<&(Vec<u8>, Vec<u8>)> = all.iter().filter(|(k, _)| k.as_slice() < hi).collect();
    for order in [Order::Ascending, Order::Descending] {
        let mut keys: Vec<Vec<u8>> = storage.range_keys(Some(lo), Some(hi), order).collect();
        let mut vals: Vec<Vec<u8>> = storage.range_values(Some(lo), Some(hi), order).collect();
        let mut both: Vec<(Vec<u8>, Vec<u8>)> = storage.range(Some(lo), Some(hi), order).collect();
        if order == Order::Descending {
            keys.reverse();
            vals.reverse();
            both.reverse();
        }
        if keys != inside.iter().map(|(k, _)| k.clone()).collect::<Vec<_>>() || vals != inside.iter().map(|(_, v)| v.clone()).collect::<Vec<_>>() || both.iter().collect::<Vec<_>>() != inside {
            return Some(format!("bounded scans ({:?}) after own writes: {} keys, {} values, {} pairs; the full scan has {} entries below the bound", order, keys.len(), vals.len(), both.len(), inside.len()));
        }
    }
    None
}

pub fn all_balances_request(addr: &str) -> Vec<u8> {
    #[allow(deprecated)]
    let req: cosmwasm_std::QueryRequest<XQuery> = cosmwasm_std::BankQuery::AllBalances { address: addr.to_string() }.into();
    cosmwasm_std::to_json_vec(&req).unwrap()
}

fn own_balance(q: &dyn Querier, addr: &str) -> Vec<(String, u128)> {
    match raw_query(q, &all_balances_request(addr)) {
        Ok(txt) => {
            #[allow(deprecated)]
            let r: Result<cosmwasm_std::AllBalanceResponse, _> = cosmwasm_std::from_json(txt.as_bytes());
            r.map(|r| coins_rec(&r.amount)).unwrap_or_else(|_| vec![("<unparseable>".into(), 0)])
        }
        Err(()) => vec![("<query failed>".into(), 0)],
    }
}

#[allow(clippy::too_many_arguments)]
fn run_entry(kind: Kind, tag: u32, storage: &mut dyn Storage, querier: &dyn Querier, env: &Env, sender: Option<&Addr>, funds: &[Coin], node: Option<usize>, reply: Option<&Reply>) -> AnyResult<Response<XMsg>> {
    let contract = env.contract.address.to_string();
    // which node does a reply run? looked up by (contract, id, payload)
    let node = match (node, reply) {
        (Some(n), _) => Some(n),
        (None, Some(r)) => RT.with(|rt| {
            let mut rt = rt.borrow_mut();
            let key = (contract.clone(), r.id, r.payload.to_vec());
            // the next reply the reference expects for this key; a reply it does not expect falls
            // back to the table of all sub-messages (and is recorded like any other)
            match rt.reply_queue.get_mut(&key).and_then(|q| q.pop_front()) {
                Some(n) => Some(n),
                None => rt.reply_lookup.get(&key).copied(),
            }
        }),
        _ => None,
    };
    let rtn: Option<NodeRt> = node.and_then(|n| RT.with(|rt| rt.borrow().nodes.get(&n).cloned()));
    let reply_rec = reply.map(|r| match &r.result {
        #[allow(deprecated)]
        SubMsgResult::Ok(resp) => ReplyRec {
            id: r.id,
            payload: r.payload.to_vec(),
            ok: true,
            events: resp.events.clone(),
            data: resp.data.as_ref().map(|d| d.to_vec()),
            msg_values: resp.msg_responses.iter().map(|m| m.value.to_vec()).collect(),
        },
        SubMsgResult::Err(_) => ReplyRec { id: r.id, payload: r.payload.to_vec(), ok: false, events: vec![], data: None, msg_values: vec![] },
    });
    let mut entry = TraceEntry {
        kind,
        code_tag: tag,
        node,
        contract: contract.clone(),
        block: (env.block.height, env.block.time.nanos(), env.block.chain_id.clone()),
        sender: sender.map(|s| s.to_string()),
        funds: coins_rec(funds),
        own_balance: own_balance(querier, &contract),
        reply: reply_rec,
        pre_queries: vec![],
        reads: vec![],
        queries: vec![],
        raw: Unjudged(format!("{} {}", cosmwasm_std::to_json_string(env).unwrap_or_default(), reply.map(|r| cosmwasm_std::to_json_string(r).unwrap_or_default()).unwrap_or_default())),
        complaint: Unjudged::default(),
    };
    let Some(rtn) = rtn else {
        // node unknown to the plan (the real run diverged from the reference): record and return empty
        RT.with(|rt| rt.borrow_mut().trace.push(entry));
        return Ok(Response::new());
    };
    // push the entry first (nested smart queries append their own entries after it), fill it later
    let idx = RT.with(|rt| {
        let mut rt = rt.borrow_mut();
        rt.trace.push(entry.clone());
        rt.trace.len() - 1
    });
    entry.pre_queries = rtn.pre_queries.iter().map(|q| raw_query(querier, q)).collect();
    entry.reads = do_reads(storage, &rtn.reads);
    for w in &rtn.writes {
        match w {
            Write::Set(k, v) => storage.set(&k.0, &v.0),
            Write::Remove(k) => storage.remove(&k.0),
        }
    }
    // the contract reads its own writes back, in every form the Storage trait offers (no reference needed:
    // whatever disagrees is recorded next to the trace entry and reported after the comparison with the reference)
    if !rtn.writes.is_empty() {
        if let Some(complaint) = own_writes_readable(storage, &rtn.writes) {
            entry.complaint = Unjudged(complaint);
        }
    }
    entry.queries = rtn.queries.iter().map(|q| raw_query(querier, q)).collect();
    RT.with(|rt| rt.borrow_mut().trace[idx] = entry);
    if rtn.fail {
        return Err(AnyError::msg("scripted failure"));
    }
    let mut resp = Response::<XMsg>::new();
    for (k, v) in &rtn.attrs {
        // struct literal: Attribute::new panics on reserved keys in builds with debug assertions,
        // and malformed keys are exactly what C13 needs to send
        resp.attributes.push(cosmwasm_std::Attribute { key: k.clone(), value: v.clone() });
    }
    for (ty, attrs) in &rtn.events {
        let mut ev = Event::new(ty.clone());
        for (k, v) in attrs {
            ev = ev.add_attribute(k.clone(), v.clone());
        }
        resp = resp.add_event(ev);
    }
    resp.data = rtn.data.map(Binary::from);
    resp = resp.add_submessages(rtn.subs);
    Ok(resp)
}

fn run_query(tag: u32, storage: &dyn Storage, querier: &dyn Querier, env: &Env, qnode: usize) -> AnyResult<Binary> {
    let contract = env.contract.address.to_string();
    let q: Option<QNodeRt> = RT.with(|rt| rt.borrow().qnodes.get(&qnode).cloned());
    let mut entry = TraceEntry {
        kind: Kind::Query,
        code_tag: tag,
        node: Some(qnode),
        contract: contract.clone(),
        block: (env.block.height, env.block.time.nanos(), env.block.chain_id.clone()),
        sender: None,
        funds: vec![],
        own_balance: own_balance(querier, &contract),
        reply: None,
        pre_queries: vec![],
        reads: vec![],
        queries: vec![],
        raw: Unjudged(cosmwasm_std::to_json_string(env).unwrap_or_default()),
        complaint: Unjudged::default(),
    };
    let Some(q) = q else {
        RT.with(|rt| rt.borrow_mut().trace.push(entry));
        return Ok(to_json_binary(&"unknown-qnode")?);
    };
    let idx = RT.with(|rt| {
        let mut rt = rt.borrow_mut();
        rt.trace.push(entry.clone());
        rt.trace.len() - 1
    });
    entry.reads = do_reads(storage, &q.reads);
    entry.queries = q.queries.iter().map(|r| raw_query(querier, r)).collect();
    let answer = query_answer(tag, &entry.reads, &entry.queries);
    RT.with(|rt| rt.borrow_mut().trace[idx] = entry);
    if q.fail {
        return Err(AnyError::msg("scripted query failure"));
    }
    Ok(Binary::from(answer.into_bytes()))
}

/// The (deterministic) answer of a puppet's query entry point: what it read and what it was told.
pub fn query_answer(tag: u32, reads: &[ReadRes], queries: &[QRes]) -> String {
    let reads: Vec<String> = reads
        .iter()
        .map(|r| match r {
            ReadRes::Got(None) => "-".to_string(),
            ReadRes::Got(Some(v)) => hex::encode(v),
            ReadRes::Scanned(kv) => kv.iter().map(|(k, v)| format!("{}={}", hex::encode(k), hex::encode(v))).collect::<Vec<_>>().join(","),
        })
        .collect();
    let queries: Vec<String> = queries.iter().map(|q| match q { Ok(s) => s.clone(), Err(()) => "ERR".to_string() }).collect();
    serde_json::json!({ "tag": tag, "reads": reads, "queries": queries }).to_string()
}

// ---------------------------------------------------------------- family A: direct Contract impl

pub struct Puppet {
    pub tag: u32,
    pub checksum: Option<Checksum>,
}

fn parse(msg: &[u8]) -> AnyResult<usize> {
    let m: PMsg = cosmwasm_std::from_json(msg)?;
    Ok(m.n)
}

impl Contract<XMsg, XQuery> for Puppet {
    fn execute(&self, deps: DepsMut<XQuery>, env: Env, info: MessageInfo, msg: Vec<u8>) -> AnyResult<Response<XMsg>> {
        let n = parse(&msg)?;
        run_entry(Kind::Execute, self.tag, deps.storage, &*deps.querier, &env, Some(&info.sender), &info.funds, Some(n), None)
    }
    fn instantiate(&self, deps: DepsMut<XQuery>, env: Env, info: MessageInfo, msg: Vec<u8>) -> AnyResult<Response<XMsg>> {
        let n = parse(&msg)?;
        run_entry(Kind::Instantiate, self.tag, deps.storage, &*deps.querier, &env, Some(&info.sender), &info.funds, Some(n), None)
    }
    fn query(&self, deps: Deps<XQuery>, env: Env, msg: Vec<u8>) -> AnyResult<Binary> {
        let n = parse(&msg)?;
        run_query(self.tag, deps.storage, &*deps.querier, &env, n)
    }
    fn sudo(&self, deps: DepsMut<XQuery>, env: Env, msg: Vec<u8>) -> AnyResult<Response<XMsg>> {
        let n = parse(&msg)?;
        run_entry(Kind::Sudo, self.tag, deps.storage, &*deps.querier, &env, None, &[], Some(n), None)
    }
    fn reply(&self, deps: DepsMut<XQuery>, env: Env, msg: Reply) -> AnyResult<Response<XMsg>> {
        run_entry(Kind::Reply, self.tag, deps.storage, &*deps.querier, &env, None, &[], None, Some(&msg))
    }
    fn migrate(&self, deps: DepsMut<XQuery>, env: Env, msg: Vec<u8>) -> AnyResult<Response<XMsg>> {
        let n = parse(&msg)?;
        run_entry(Kind::Migrate, self.tag, deps.storage, &*deps.querier, &env, None, &[], Some(n), None)
    }
    fn checksum(&self) -> Option<Checksum> {
        self.checksum
    }
}

// ---------------------------------------------------------------- family B: ContractWrapper::new_with_empty

fn lower(resp: Response<XMsg>) -> Response<Empty> {
    let mut out = Response::<Empty>::new().add_attributes(resp.attributes).add_events(resp.events);
    out.data = resp.data;
    for s in resp.messages {
        let msg: CosmosMsg<Empty> = match s.msg {
            CosmosMsg::Bank(m) => CosmosMsg::Bank(m),
            CosmosMsg::Wasm(m) => CosmosMsg::Wasm(m),
            CosmosMsg::Staking(m) => CosmosMsg::Staking(m),
            CosmosMsg::Distribution(m) => CosmosMsg::Distribution(m),
            CosmosMsg::Ibc(m) => CosmosMsg::Ibc(m),
            CosmosMsg::Gov(m) => CosmosMsg::Gov(m),
            CosmosMsg::Any(m) => CosmosMsg::Any(m),
            #[allow(deprecated)]
            CosmosMsg::Stargate { type_url, value } => CosmosMsg::Stargate { type_url, value },
            // the interpreter never schedules a custom message for an Empty-typed contract
            _ => continue,
        };
        out = out.add_submessage(SubMsg { id: s.id, payload: s.payload, msg, gas_limit: s.gas_limit, reply_on: s.reply_on });
    }
    out
}

fn se(e: AnyError) -> StdError {
    StdError::generic_err(e.to_string())
}

fn w_execute<const T: u32>(deps: DepsMut, env: Env, info: MessageInfo, msg: PMsg) -> StdResult<Response> {
    run_entry(Kind::Execute, T, deps.storage, &*deps.querier, &env, Some(&info.sender), &info.funds, Some(msg.n), None).map(lower).map_err(se)
}
fn w_instantiate<const T: u32>(deps: DepsMut, env: Env, info: MessageInfo, msg: PMsg) -> StdResult<Response> {
    run_entry(Kind::Instantiate, T, deps.storage, &*deps.querier, &env, Some(&info.sender), &info.funds, Some(msg.n), None).map(lower).map_err(se)
}
fn w_query<const T: u32>(deps: Deps, env: Env, msg: PMsg) -> StdResult<Binary> {
    run_query(T, deps.storage, &*deps.querier, &env, msg.n).map_err(se)
}
fn w_sudo<const T: u32>(deps: DepsMut, env: Env, msg: PMsg) -> StdResult<Response> {
    run_entry(Kind::Sudo, T, deps.storage, &*deps.querier, &env, None, &[], Some(msg.n), None).map(lower).map_err(se)
}
fn w_migrate<const T: u32>(deps: DepsMut, env: Env, msg: PMsg) -> StdResult<Response> {
    run_entry(Kind::Migrate, T, deps.storage, &*deps.querier, &env, None, &[], Some(msg.n), None).map(lower).map_err(se)
}
fn w_reply<const T: u32>(deps: DepsMut, env: Env, msg: Reply) -> StdResult<Response> {
    run_entry(Kind::Reply, T, deps.storage, &*deps.querier, &env, None, &[], None, Some(&msg)).map(lower).map_err(se)
}

fn wrapped<const T: u32>(full: bool, checksum: Option<Checksum>) -> Box<dyn Contract<XMsg, XQuery>> {
    if full {
        let mut w = ContractWrapper::new_with_empty(w_execute::<T>, w_instantiate::<T>, w_query::<T>)
            .with_reply_empty(w_reply::<T>)
            .with_sudo_empty(w_sudo::<T>)
            .with_migrate_empty(w_migrate::<T>);
        if let Some(c) = checksum {
            w = w.with_checksum(c);
        }
        Box::new(w)
    } else {
        let mut w = ContractWrapper::new_with_empty(w_execute::<T>, w_instantiate::<T>, w_query::<T>);
        if let Some(c) = checksum {
            w = w.with_checksum(c);
        }
        Box::new(w)
    }
}

pub const MAX_TAGS: u32 = 16;

/// Builds the code object for (tag, family). Tags are 0..MAX_TAGS.
pub fn make_code(tag: u32, family: Family, checksum: Option<Checksum>) -> Box<dyn Contract<XMsg, XQuery>> {
    match family {
        Family::Puppet => Box::new(Puppet { tag, checksum }),
        Family::WrappedFull | Family::WrappedMin => {
            let full = family == Family::WrappedFull;
            macro_rules! pick {
                ($($n:literal),*) => { match tag % MAX_TAGS { $( $n => wrapped::<$n>(full, checksum), )* _ => unreachable!() } };
            }
            pick!(0, 1, 2, 3, 4, 5, 6, 7, 8, 9, 10, 11, 12, 13, 14, 15)
        }
    }
}

// ---------------------------------------------------------------- recording custom module

pub const XMOD_PREFIX: &[u8] = b"\x00\x04xmod";

pub fn xmod_key(tag: u32) -> Vec<u8> {
    let mut k = XMOD_PREFIX.to_vec();
    k.extend_from_slice(format!("m{}", tag).as_bytes());
    k
}

#[derive(Default)]
pub struct XModule;

impl Module for XModule {
    type ExecT = XMsg;
    type QueryT = XQuery;
    type SudoT = Empty;

    fn execute<ExecC, QueryC>(&self, _api: &dyn Api, storage: &mut dyn Storage, _router: &dyn CosmosRouter<ExecC = ExecC, QueryC = QueryC>, _block: &BlockInfo, sender: Addr, msg: XMsg) -> AnyResult<AppResponse>
    where
        ExecC: CustomMsg + DeserializeOwned + 'static,
        QueryC: CustomQuery + DeserializeOwned + 'static,
    {
        RT.with(|rt| rt.borrow_mut().xlog.push((sender.to_string(), msg.tag, msg.fail)));
        // the marker is written *before* failing, so that a missing rollback is observable
        storage.set(&xmod_key(msg.tag), sender.as_bytes());
        if msg.fail {
            return Err(AnyError::msg("custom module: scripted failure"));
        }
        // every third tag: an entirely empty answer (no events, no data), like the crate's accepting modules
        if msg.tag % 3 == 0 {
            return Ok(AppResponse::default());
        }
        Ok(AppResponse { events: vec![Event::new("xmod").add_attribute("tag", msg.tag.to_string())], data: Some(Binary::from(format!("x{}", msg.tag).into_bytes())) })
    }

    fn query(&self, _api: &dyn Api, storage: &dyn Storage, _querier: &dyn Querier, _block: &BlockInfo, request: XQuery) -> AnyResult<Binary> {
        let marker = storage.get(&xmod_key(request.tag)).map(|v| String::from_utf8_lossy(&v).into_owned());
        Ok(to_json_binary(&XQueryResp { tag: request.tag, marker })?)
    }

    fn sudo<ExecC, QueryC>(&self, _api: &dyn Api, _storage: &mut dyn Storage, _router: &dyn CosmosRouter<ExecC = ExecC, QueryC = QueryC>, _block: &BlockInfo, _msg: Empty) -> AnyResult<AppResponse>
    where
        ExecC: CustomMsg + DeserializeOwned + 'static,
        QueryC: CustomQuery + DeserializeOwned + 'static,
    {
        Err(AnyError::msg("custom module has no sudo"))
    }
}
