//! Reference interpreter for the tree engine, written from the property statements.
//!
//! Rollback is implemented the obviously-correct way: clone the whole state before a sub-message
//! and restore the clone on failure. Besides the predicted result it produces the *resolved plan*
//! (concrete responses for every scripted node) handed to the puppets, and the predicted trace.

use super::puppet::{query_answer, Kind, NodeRt, QNodeRt, QRes, ReadRes, ReplyRec, TraceEntry, XMsg, XQuery, XQueryResp};
use super::types::*;
use crate::util::classic_canonical;
use crate::util::Kv;
use cosmwasm_std::testing::MockApi;
use cosmwasm_std::{
    coin, DistributionMsg, StakingMsg, StakingQuery, to_json_binary, to_json_string, to_json_vec, Addr, Api, BankMsg, BankQuery, Binary, Coin, ContractInfoResponse, CosmosMsg, Event, QueryRequest, ReplyOn, SubMsg, Uint128, WasmMsg, WasmQuery,
};
use std::collections::{BTreeMap, BTreeSet};

pub const STAKING_MODULE: &str = "staking_module";
pub const BONDED: &str = "TOKEN";

pub fn validator_obj(address: &str) -> cosmwasm_std::Validator {
    cosmwasm_std::Validator::new(address.to_string(), cosmwasm_std::Decimal::zero(), cosmwasm_std::Decimal::percent(20), cosmwasm_std::Decimal::percent(1))
}

#[derive(Clone, Debug, PartialEq, Eq)]
pub struct CInfo {
    pub code_id: u64,
    pub creator: String,
    pub admin: Option<String>,
    pub label: String,
    pub created: u64,
    pub kv: Kv,
}

#[derive(Clone, Debug, PartialEq, Eq)]
pub struct CodeInfo {
    pub creator: String,
    pub checksum: Vec<u8>,
    pub tag: u32,
    pub family: Family,
}

/// Chain state that transactions can change (cloned for rollback).
#[derive(Clone, Debug, PartialEq, Eq, Default)]
pub struct MState {
    pub bank: BTreeMap<String, BTreeMap<String, u128>>,
    pub contracts: BTreeMap<String, CInfo>,
    /// creation order (symbolic contract references index into this)
    pub order: Vec<String>,
    pub xmarks: BTreeMap<u32, String>,
    pub block: (u64, u64, String),
    /// (delegator, validator) -> whole tokens (no slashing and a zero rate inside the tree engine)
    pub deleg: BTreeMap<(String, String), u128>,
    /// FIFO of pending unbondings: (delegator, validator, amount, payout time in nanos)
    pub unbond: Vec<(String, String, u128, u64)>,
    pub withdraw: BTreeMap<String, String>,
}

/// Everything that transactions cannot change.
#[derive(Clone, Debug, Default)]
pub struct Fixed {
    pub codes: BTreeMap<u64, CodeInfo>,
    pub users: Vec<String>,
    pub fresh: Vec<String>,
    pub nowhere: String,
    pub validators: Vec<String>,
    pub unbonding_time: u64,
    pub addr_pool: u8,
    pub api: u8,
}

#[derive(Clone, Debug, PartialEq, Eq, PartialOrd, Ord)]
pub enum Site {
    Node(usize),
    /// leaf message (bank / custom) dispatched as sub-message `sub` of node `node`
    Leaf(usize, usize),
    /// leaf message that is the i-th top-level message
    Root(usize),
}

#[derive(Clone, Debug, PartialEq, Eq)]
pub struct Resp {
    pub events: Vec<Event>,
    pub data: Option<Vec<u8>>,
}

/// Why the predicted trace continues (or not) the way it does at a given position; used to
/// attribute a divergence between the real and the predicted trace to a property.
#[derive(Clone, Debug, PartialEq, Eq)]
pub enum Why {
    /// a reply entry is expected here because (outcome, reply_on) says so
    ReplyDue { child_ok: bool, reply_node: usize },
    /// no reply may run here because (outcome, reply_on) says so
    NoReply { child_ok: bool, reply_node: usize },
    /// the callee must not run: attached funds exceed the sender's balance / carry no positive amount
    Overdraft,
    /// the node before returned a malformed response and counts as failed
    AfterMalformed,
    /// a failure was absorbed here (parent continues with the next sibling)
    AfterCaught,
    /// a failure propagates from here (no further sibling may run)
    AfterUncaught,
    /// an instantiate / migrate entry point is about to run (the registry accepted the request)
    Starts,
    /// the registry rejects the request (unknown code, duplicate address, bad salt, empty label, no such contract)
    RegistryReject,
    /// the sender is not the contract's current admin
    Unauthorized,
    /// the derived address is already taken: accepting the request would let two contracts share
    /// one key space
    DuplicateAddress,
    /// the contract's current code has no entry point of this kind: the call must fail
    NoEntryPoint(Kind),
    Plain,
}

pub fn bad_key(k: &str) -> bool {
    let t = k.trim();
    t.is_empty() || t.starts_with('_')
}
pub fn bad_type(t: &str) -> bool {
    t.trim().len() < 2
}
pub fn malformed(n: &Node) -> bool {
    n.attrs.iter().any(|(k, _)| bad_key(k)) || n.events.iter().any(|(t, a)| bad_type(t) || a.iter().any(|(k, _)| bad_key(k)))
}

fn varint(mut n: usize, out: &mut Vec<u8>) {
    loop {
        let b = (n & 0x7f) as u8;
        n >>= 7;
        if n == 0 {
            out.push(b);
            return;
        }
        out.push(b | 0x80);
    }
}

/// standard execute-response encoding: message { bytes data = 1; }
pub fn wrap_execute(data: Option<Vec<u8>>) -> Option<Vec<u8>> {
    data.map(|d| {
        let mut out = vec![];
        if !d.is_empty() {
            out.push(0x0a);
            varint(d.len(), &mut out);
            out.extend_from_slice(&d);
        }
        out
    })
}

/// standard instantiate-response encoding: message { string address = 1; bytes data = 2; }
pub fn wrap_instantiate(addr: &str, data: Option<Vec<u8>>) -> Vec<u8> {
    let mut out = vec![];
    if !addr.is_empty() {
        out.push(0x0a);
        varint(addr.len(), &mut out);
        out.extend_from_slice(addr.as_bytes());
    }
    let d = data.unwrap_or_default();
    if !d.is_empty() {
        out.push(0x12);
        varint(d.len(), &mut out);
        out.extend_from_slice(&d);
    }
    out
}

/// address (field 1) of a standard instantiate-response encoding
pub fn instantiate_response_address(data: &[u8]) -> Option<String> {
    if data.first() != Some(&0x0a) {
        return None;
    }
    let mut len = 0usize;
    let mut shift = 0;
    let mut i = 1;
    loop {
        let b = *data.get(i)?;
        len |= ((b & 0x7f) as usize) << shift;
        i += 1;
        if b & 0x80 == 0 {
            break;
        }
        shift += 7;
    }
    String::from_utf8(data.get(i..i + len)?.to_vec()).ok()
}

thread_local! {
    /// bech32 prefix of the App the current thread is working on (Apps with different prefixes are
    /// interleaved by the determinism check)
    pub static PREFIX: std::cell::Cell<&'static str> = const { std::cell::Cell::new("cosmwasm") };
}

pub fn api() -> MockApi {
    MockApi::default().with_prefix(PREFIX.with(|p| p.get()))
}

/// `addr` (an address of the current chain) re-encoded with the Bech32m checksum and the same prefix
pub fn alien_text(addr: &str) -> String {
    let prefix = PREFIX.with(|p| p.get());
    match api().addr_canonicalize(addr) {
        Ok(c) => cw_multi_test::MockApiBech32m::new(prefix).addr_humanize(&c).map(|a| a.to_string()).unwrap_or_else(|_| "alien".to_string()),
        Err(_) => "alien".to_string(),
    }
}

/// Address number `j` of the custom address generator's pool (`Setup::addr_pool`). Pools >= 128 are
/// (bit 6: a pool of plain words, see below) *adjacent* pools: every odd address is its predecessor with the last character incremented, i.e.
/// the very next string - not an address of the codec, but the generator's word is taken unchecked,
/// and the two contracts' key spaces are neighbours in the root store.
pub fn pool_address(api: &dyn cosmwasm_std::Api, pool: u8, instance_id: u64) -> String {
    let k = (pool & 0x3f).max(1) as u64;
    let j = instance_id % k;
    if pool & 64 != 0 {
        // a generator that hands out plain words - among them the names of the keeper's own maps
        return ["contracts", "codes", "contract_data/", "wasm", "bank"][(j % 5) as usize].to_string();
    }
    let base = |j: u64| api.addr_humanize(&classic_canonical(1, j)).map(|a| a.to_string()).unwrap_or_default();
    if pool >= 128 && j % 2 == 1 {
        let mut s = base(j - 1).into_bytes();
        if let Some(l) = s.last_mut() {
            *l += 1;
        }
        String::from_utf8_lossy(&s).into_owned()
    } else {
        base(j)
    }
}

pub fn classic_address(code_id: u64, instance_id: u64) -> String {
    api().addr_humanize(&classic_canonical(code_id, instance_id)).unwrap().to_string()
}

pub fn salted_address(checksum: &[u8], creator: &str, salt: &[u8]) -> Option<String> {
    let canon = api().addr_canonicalize(creator).ok()?;
    let c = cosmwasm_std::instantiate2_address(checksum, &canon, salt).ok()?;
    Some(api().addr_humanize(&c).ok()?.to_string())
}

pub struct Interp<'a> {
    pub st: MState,
    pub fx: &'a Fixed,
    pub tx: &'a Tx,
    pub faults: &'a BTreeSet<Site>,
    // outputs
    pub nodes_rt: BTreeMap<usize, NodeRt>,
    pub qnodes_rt: BTreeMap<usize, QNodeRt>,
    pub reply_lookup: BTreeMap<(String, u64, Vec<u8>), usize>,
    pub reply_queue: BTreeMap<(String, u64, Vec<u8>), std::collections::VecDeque<usize>>,
    pub trace: Vec<TraceEntry>,
    /// number of failures met before each trace entry was pushed
    pub fail_before: Vec<usize>,
    /// number of failed messages that carried attached funds, before each trace entry
    pub funded_fail_before: Vec<usize>,
    pub funded_failures: usize,
    /// whys[i] explains why trace position i (or the end of the trace) looks the way it does
    pub whys: Vec<(usize, Why)>,
    pub sites: Vec<Site>,
    /// number of failures (of any kind) met during interpretation
    pub failures: usize,
    /// the most recent `Why` that describes a failure origin (the one that propagates when the
    /// top-level call fails)
    pub last_fail: Option<Why>,
    pub caught: usize,
    pub max_depth: usize,
    pub ever_written: BTreeMap<String, BTreeSet<Vec<u8>>>,
}

type R<T> = Result<T, ()>;

impl<'a> Interp<'a> {
    pub fn new(st: MState, fx: &'a Fixed, tx: &'a Tx, faults: &'a BTreeSet<Site>) -> Self {
        Interp {
            st,
            fx,
            tx,
            faults,
            nodes_rt: BTreeMap::new(),
            qnodes_rt: BTreeMap::new(),
            reply_lookup: BTreeMap::new(),
            reply_queue: BTreeMap::new(),
            trace: vec![],
            fail_before: vec![],
            funded_fail_before: vec![],
            funded_failures: 0,
            whys: vec![],
            sites: vec![],
            failures: 0,
            last_fail: None,
            caught: 0,
            max_depth: 0,
            ever_written: BTreeMap::new(),
        }
    }

    fn why(&mut self, w: Why) {
        let pos = self.trace.len();
        if matches!(w, Why::Overdraft | Why::AfterMalformed | Why::RegistryReject | Why::Unauthorized) {
            self.last_fail = Some(w.clone());
        }
        self.whys.push((pos, w));
    }

    // ------------------------------------------------------------ reference resolution

    pub fn cref(&self, c: CRef) -> String {
        if c.0 == 253 && !self.st.order.is_empty() {
            // the first contract's address in upper case: the same bytes, but not the text the chain uses
            self.st.order[0].to_uppercase()
        } else if c.0 == 254 || c.0 == 253 {
            "Not/An Address".to_string()
        } else if c.0 == 255 || self.st.order.is_empty() {
            self.fx.nowhere.clone()
        } else {
            self.st.order[c.0 as usize % self.st.order.len()].clone()
        }
    }

    pub fn kref(&self, k: KRef) -> u64 {
        match k.0 {
            255 => self.fx.codes.keys().last().copied().unwrap_or(0) + 7,
            254 => 0,
            i if self.fx.codes.is_empty() => i as u64 + 1,
            i => *self.fx.codes.keys().nth(i as usize % self.fx.codes.len()).unwrap(),
        }
    }

    pub fn aref(&self, a: ARef) -> String {
        match a {
            ARef::User(i) => self.fx.users[i as usize % self.fx.users.len()].clone(),
            ARef::C(c) => self.cref(c),
            ARef::Fresh(i) => self.fx.fresh[i as usize % self.fx.fresh.len()].clone(),
            // 3: a user's address in upper case - decodes to the same bytes, but is not the normalised text
            ARef::Raw(3) => self.fx.users[0].to_uppercase(),
            ARef::Raw(i) => ["raw0", "RAW1", "cosmwasm1raw"][i as usize % 3].to_string(),
            ARef::Alien(i) => alien_text(&self.fx.users[i as usize % self.fx.users.len()]),
        }
    }

    pub fn vref(&self, v: u8) -> String {
        if v == 255 || self.fx.validators.is_empty() {
            "nobody".to_string()
        } else {
            self.fx.validators[v as usize % self.fx.validators.len()].clone()
        }
    }

    /// an amount relative to the sender's delegation at that validator
    fn stake_coin(&self, sender: &str, validator: &str, c: &CoinSpec) -> Coin {
        let d = DENOMS[c.denom as usize % DENOMS.len()];
        let b = self.st.deleg.get(&(sender.to_string(), validator.to_string())).copied().unwrap_or(0);
        let a = match c.amt {
            Amt::Exact(n) => n,
            Amt::Bal => b,
            Amt::BalPlus(n) => b.saturating_add(n),
            Amt::BalMinus(n) => b.saturating_sub(n),
            Amt::Half => b / 2,
        };
        coin(a, d)
    }

    pub fn bal(&self, addr: &str, denom: &str) -> u128 {
        self.st.bank.get(addr).and_then(|m| m.get(denom)).copied().unwrap_or(0)
    }

    pub fn coins(&self, owner: &str, specs: &[CoinSpec]) -> Vec<Coin> {
        specs
            .iter()
            .map(|c| {
                let d = DENOMS[c.denom as usize % DENOMS.len()];
                let b = self.bal(owner, d);
                let a = match c.amt {
                    Amt::Exact(n) => n,
                    Amt::Bal => b,
                    Amt::BalPlus(n) => b.saturating_add(n),
                    Amt::BalMinus(n) => b.saturating_sub(n),
                    Amt::Half => b / 2,
                };
                coin(a, d)
            })
            .collect()
    }

    fn pmsg(n: usize) -> Binary {
        Binary::from(format!("{{\"n\":{}}}", n).into_bytes())
    }

    /// Symbolic message -> concrete message, resolved against the current state.
    pub fn resolve(&self, sender: &str, m: &Msg) -> CosmosMsg<XMsg> {
        match m {
            Msg::Exec { c, node, funds } => WasmMsg::Execute { contract_addr: self.cref(*c), msg: Self::pmsg(*node), funds: self.coins(sender, funds) }.into(),
            Msg::Inst { code, node, funds, label, admin, salt } => match salt {
                None => WasmMsg::Instantiate { admin: admin.map(|a| self.aref(a)), code_id: self.kref(*code), msg: Self::pmsg(*node), funds: self.coins(sender, funds), label: label.clone() }.into(),
                Some(s) => WasmMsg::Instantiate2 { admin: admin.map(|a| self.aref(a)), code_id: self.kref(*code), msg: Self::pmsg(*node), funds: self.coins(sender, funds), label: label.clone(), salt: Binary::from(s.0.clone()) }.into(),
            },
            Msg::Migrate { c, code, node } => WasmMsg::Migrate { contract_addr: self.cref(*c), new_code_id: self.kref(*code), msg: Self::pmsg(*node) }.into(),
            Msg::UpdateAdmin { c, admin } => WasmMsg::UpdateAdmin { contract_addr: self.cref(*c), admin: self.aref(*admin) }.into(),
            Msg::ClearAdmin { c } => WasmMsg::ClearAdmin { contract_addr: self.cref(*c) }.into(),
            Msg::Send { to, coins } => BankMsg::Send { to_address: self.aref(*to), amount: self.coins(sender, coins) }.into(),
            Msg::Burn { coins } => BankMsg::Burn { amount: self.coins(sender, coins) }.into(),
            Msg::Custom { tag, fail } => CosmosMsg::Custom(XMsg { tag: *tag, fail: *fail }),
            Msg::Delegate { v, amt } => StakingMsg::Delegate { validator: self.vref(*v), amount: self.coins(sender, std::slice::from_ref(amt)).remove(0) }.into(),
            Msg::Undelegate { v, amt } => {
                let val = self.vref(*v);
                StakingMsg::Undelegate { amount: self.stake_coin(sender, &val, amt), validator: val }.into()
            }
            Msg::Redelegate { src, dst, amt } => {
                let val = self.vref(*src);
                StakingMsg::Redelegate { amount: self.stake_coin(sender, &val, amt), src_validator: val, dst_validator: self.vref(*dst) }.into()
            }
            Msg::SetWithdraw { to } => DistributionMsg::SetWithdrawAddress { address: self.aref(*to) }.into(),
        }
    }

    pub fn resolve_query(&self, q: &QSpec) -> QueryRequest<XQuery> {
        match q {
            QSpec::Balance(a, d) => BankQuery::Balance { address: self.aref(*a), denom: DENOMS[*d as usize % DENOMS.len()].into() }.into(),
            #[allow(deprecated)]
            QSpec::AllBalances(a) => BankQuery::AllBalances { address: self.aref(*a) }.into(),
            QSpec::Supply(d) => BankQuery::Supply { denom: DENOMS[*d as usize % DENOMS.len()].into() }.into(),
            QSpec::Raw(c, k) => WasmQuery::Raw { contract_addr: self.cref(*c), key: Binary::from(k.0.clone()) }.into(),
            QSpec::ContractInfo(c) => WasmQuery::ContractInfo { contract_addr: self.cref(*c) }.into(),
            QSpec::CodeInfo(k) => WasmQuery::CodeInfo { code_id: self.kref(*k) }.into(),
            QSpec::Smart(c, q) => WasmQuery::Smart { contract_addr: self.cref(*c), msg: Self::pmsg(*q) }.into(),
            QSpec::Custom(t) => QueryRequest::Custom(XQuery { tag: *t }),
            QSpec::BondedDenom => StakingQuery::BondedDenom {}.into(),
            QSpec::Delegation(a, v) => StakingQuery::Delegation { delegator: self.aref(*a), validator: self.vref(*v) }.into(),
            QSpec::AllDelegations(a) => StakingQuery::AllDelegations { delegator: self.aref(*a) }.into(),
            QSpec::AllValidators => StakingQuery::AllValidators {}.into(),
        }
    }

    // ------------------------------------------------------------ bank

    fn positive(coins: &[Coin]) -> bool {
        coins.iter().any(|c| !c.amount.is_zero())
    }

    fn bank_debit(&mut self, from: &str, coins: &[Coin]) -> R<()> {
        if !Self::positive(coins) {
            return Err(());
        }
        let mut sums: BTreeMap<String, u128> = BTreeMap::new();
        for c in coins {
            *sums.entry(c.denom.clone()).or_insert(0) += c.amount.u128();
        }
        for (d, s) in &sums {
            if *s > self.bal(from, d) {
                return Err(());
            }
        }
        for (d, s) in sums {
            *self.st.bank.entry(from.to_string()).or_default().entry(d).or_insert(0) -= s;
        }
        Ok(())
    }

    fn bank_credit(&mut self, to: &str, coins: &[Coin]) -> R<()> {
        if !Self::positive(coins) {
            return Err(());
        }
        for c in coins {
            *self.st.bank.entry(to.to_string()).or_default().entry(c.denom.clone()).or_insert(0) += c.amount.u128();
        }
        Ok(())
    }

    fn bank_send(&mut self, from: &str, to: &str, coins: &[Coin]) -> R<()> {
        let keep = self.st.bank.clone();
        if self.bank_debit(from, coins).is_err() || self.bank_credit(to, coins).is_err() {
            self.st.bank = keep;
            return Err(());
        }
        Ok(())
    }

    /// what the puppet's balance probe at entry reports: the bank validates the address it is asked
    /// about, so a contract living at a string that is not an address is told that the query failed
    fn own_balance_probe(st: &MState, addr: &str) -> Vec<(String, u128)> {
        if !Self::valid_addr(addr) {
            return vec![("<query failed>".into(), 0)];
        }
        Self::all_balances(st, addr).iter().map(|c| (c.denom.clone(), c.amount.u128())).collect()
    }

    pub fn all_balances(st: &MState, addr: &str) -> Vec<Coin> {
        let mut v: Vec<Coin> = st.bank.get(addr).map(|m| m.iter().filter(|(_, a)| **a > 0).map(|(d, a)| coin(*a, d.clone())).collect()).unwrap_or_default();
        v.sort_by(|a, b| a.denom.cmp(&b.denom));
        v
    }

    // ------------------------------------------------------------ queries (evaluated on a view)

    fn valid_addr(addr: &str) -> bool {
        api().addr_validate(addr).is_ok()
    }

    pub fn eval_query(&mut self, view: &MState, q: &QSpec, depth: usize) -> QRes {
        let ok = |s: Result<String, cosmwasm_std::StdError>| s.map_err(|_| ());
        match q {
            QSpec::Balance(a, d) => {
                let addr = self.aref(*a);
                if !Self::valid_addr(&addr) {
                    return Err(());
                }
                let denom = DENOMS[*d as usize % DENOMS.len()];
                let amount = view.bank.get(&addr).and_then(|m| m.get(denom)).copied().unwrap_or(0);
                ok(to_json_string(&cosmwasm_std::BalanceResponse::new(coin(amount, denom))))
            }
            QSpec::AllBalances(a) => {
                let addr = self.aref(*a);
                if !Self::valid_addr(&addr) {
                    return Err(());
                }
                #[allow(deprecated)]
                let r = cosmwasm_std::AllBalanceResponse::new(Self::all_balances(view, &addr));
                ok(to_json_string(&r))
            }
            QSpec::Supply(d) => {
                let denom = DENOMS[*d as usize % DENOMS.len()];
                let total: u128 = view.bank.values().map(|m| m.get(denom).copied().unwrap_or(0)).sum();
                ok(to_json_string(&cosmwasm_std::SupplyResponse::new(coin(total, denom))))
            }
            QSpec::Raw(c, k) => {
                let addr = self.cref(*c);
                if !Self::valid_addr(&addr) {
                    return Err(());
                }
                // a raw query of a missing contract or key yields empty data
                let v = view.contracts.get(&addr).and_then(|ci| ci.kv.get(&k.0)).cloned().unwrap_or_default();
                Ok(String::from_utf8_lossy(&v).into_owned())
            }
            QSpec::ContractInfo(c) => {
                let addr = self.cref(*c);
                if !Self::valid_addr(&addr) {
                    return Err(());
                }
                let ci = view.contracts.get(&addr).ok_or(())?;
                let r = ContractInfoResponse::new(ci.code_id, Addr::unchecked(ci.creator.clone()), ci.admin.clone().map(Addr::unchecked), false, None);
                ok(to_json_string(&r))
            }
            QSpec::CodeInfo(k) => {
                let id = self.kref(*k);
                let code = self.fx.codes.get(&id).ok_or(())?;
                let cs = cosmwasm_std::Checksum::try_from(code.checksum.as_slice()).map_err(|_| ())?;
                ok(to_json_string(&cosmwasm_std::CodeInfoResponse::new(id, Addr::unchecked(code.creator.clone()), cs)))
            }
            QSpec::Custom(t) => ok(to_json_string(&XQueryResp { tag: *t, marker: view.xmarks.get(t).cloned() })),
            QSpec::Smart(c, qn) => {
                let addr = self.cref(*c);
                if !Self::valid_addr(&addr) {
                    return Err(());
                }
                let ci = view.contracts.get(&addr).ok_or(())?.clone();
                let code = self.fx.codes.get(&ci.code_id).ok_or(())?.clone();
                let Some(qnode) = self.tx.qnodes.get(*qn).cloned() else {
                    return Err(());
                };
                // the query entry point runs (trace entry) and reads the *view*
                let idx = self.trace.len();
                self.fail_before.push(self.failures);
        self.funded_fail_before.push(self.funded_failures);
                self.trace.push(TraceEntry {
                    kind: Kind::Query,
                    code_tag: code.tag,
                    node: Some(*qn),
                    contract: addr.clone(),
                    block: view.block.clone(),
                    sender: None,
                    funds: vec![],
                    own_balance: Self::own_balance_probe(view, &addr),
                    reply: None,
                    pre_queries: vec![],
                    reads: vec![],
                    queries: vec![],
                    raw: Default::default(),
                    complaint: Default::default(),
                });
                let reads = Self::do_reads(&ci.kv, &qnode.reads);
                let nested: Vec<QSpec> = if depth >= 3 { vec![] } else { qnode.queries.clone() };
                let rq: Vec<Vec<u8>> = nested.iter().map(|q| to_json_vec(&self.resolve_query(q)).unwrap()).collect();
                self.qnodes_rt.insert(*qn, QNodeRt { reads: qnode.reads.clone(), queries: rq, fail: qnode.fail });
                let mut qres = vec![];
                for q in &nested {
                    qres.push(self.eval_query(view, q, depth + 1));
                }
                self.trace[idx].reads = reads.clone();
                self.trace[idx].queries = qres.clone();
                if qnode.fail {
                    return Err(());
                }
                Ok(query_answer(code.tag, &reads, &qres))
            }
            QSpec::BondedDenom => ok(to_json_string(&cosmwasm_std::BondedDenomResponse::new(BONDED.to_string()))),
            QSpec::Delegation(a, v) => {
                let (d, val) = (self.aref(*a), self.vref(*v));
                if !self.fx.validators.contains(&val) || !Self::valid_addr(&d) {
                    return Err(());
                }
                let amount = view.deleg.get(&(d.clone(), val.clone())).copied().unwrap_or(0);
                let r = if amount == 0 {
                    cosmwasm_std::DelegationResponse::new(None)
                } else {
                    cosmwasm_std::DelegationResponse::new(Some(cosmwasm_std::FullDelegation::new(Addr::unchecked(d), val, coin(amount, BONDED), coin(amount, BONDED), vec![])))
                };
                ok(to_json_string(&r))
            }
            QSpec::AllDelegations(a) => {
                let d = self.aref(*a);
                if !Self::valid_addr(&d) {
                    return Err(());
                }
                let list: Vec<cosmwasm_std::Delegation> = self.fx.validators.iter().filter_map(|val| view.deleg.get(&(d.clone(), val.clone())).filter(|x| **x > 0).map(|x| cosmwasm_std::Delegation::new(Addr::unchecked(d.clone()), val.clone(), coin(*x, BONDED)))).collect();
                ok(to_json_string(&cosmwasm_std::AllDelegationsResponse::new(list)))
            }
            QSpec::AllValidators => {
                let list: Vec<cosmwasm_std::Validator> = self.fx.validators.iter().map(|v| validator_obj(v)).collect();
                ok(to_json_string(&cosmwasm_std::AllValidatorsResponse::new(list)))
            }
        }
    }

    fn do_reads(kv: &Kv, reads: &[Read]) -> Vec<ReadRes> {
        reads
            .iter()
            .map(|r| match r {
                Read::Get(k) => ReadRes::Got(kv.get(&k.0).cloned()),
                Read::Scan => ReadRes::Scanned(kv.iter().map(|(k, v)| (k.clone(), v.clone())).collect()),
            })
            .collect()
    }

    // ------------------------------------------------------------ contract calls

    fn family_has(f: Family, kind: Kind) -> bool {
        match (f, kind) {
            (Family::WrappedMin, Kind::Reply | Kind::Sudo | Kind::Migrate) => false,
            _ => true,
        }
    }

    /// Runs one scripted node at `addr`. Err = the call failed (caller restores state).
    #[allow(clippy::too_many_arguments)]
    fn run_node(&mut self, kind: Kind, addr: &str, node_idx: Option<usize>, sender: Option<&str>, funds: &[Coin], reply: Option<ReplyRec>, depth: usize) -> R<(Vec<(String, String)>, Vec<(String, Vec<(String, String)>)>, Option<Vec<u8>>, Vec<Sub>, Vec<SubMsg<XMsg>>)> {
        self.max_depth = self.max_depth.max(depth);
        let Some(ci) = self.st.contracts.get(addr).cloned() else {
            self.failures += 1;
            return Err(());
        };
        let Some(code) = self.fx.codes.get(&ci.code_id).cloned() else {
            self.failures += 1;
            return Err(());
        };
        if !Self::family_has(code.family, kind) {
            self.failures += 1;
            self.last_fail = Some(Why::NoEntryPoint(kind));
            return Err(());
        }
        let node: Option<Node> = node_idx.and_then(|n| self.tx.nodes.get(n).cloned());
        let view = self.st.clone();
        let idx = self.trace.len();
        self.fail_before.push(self.failures);
        self.funded_fail_before.push(self.funded_failures);
        self.trace.push(TraceEntry {
            kind,
            code_tag: code.tag,
            node: node_idx.filter(|_| node.is_some()),
            contract: addr.to_string(),
            block: self.st.block.clone(),
            sender: sender.map(|s| s.to_string()),
            funds: funds.iter().map(|c| (c.denom.clone(), c.amount.u128())).collect(),
            own_balance: Self::own_balance_probe(&self.st, addr),
            reply,
            pre_queries: vec![],
            reads: vec![],
            queries: vec![],
            raw: Default::default(),
            complaint: Default::default(),
        });
        let Some(node) = node else {
            // unknown node: the puppet returns an empty response
            return Ok((vec![], vec![], None, vec![], vec![]));
        };
        let n = node_idx.unwrap();
        self.sites.push(Site::Node(n));
        // resolve queries first (against the state at entry)
        let preq: Vec<Vec<u8>> = node.pre_queries.iter().map(|q| to_json_vec(&self.resolve_query(q)).unwrap()).collect();
        let postq: Vec<Vec<u8>> = node.queries.iter().map(|q| to_json_vec(&self.resolve_query(q)).unwrap()).collect();
        let mut pre_res = vec![];
        for q in &node.pre_queries {
            pre_res.push(self.eval_query(&view, q, 0));
        }
        let reads = Self::do_reads(&ci.kv, &node.reads);
        {
            let kv = &mut self.st.contracts.get_mut(addr).unwrap().kv;
            let ever = self.ever_written.entry(addr.to_string()).or_default();
            for w in &node.writes {
                match w {
                    Write::Set(k, v) => {
                        kv.insert(k.0.clone(), v.0.clone());
                        ever.insert(k.0.clone());
                    }
                    Write::Remove(k) => {
                        kv.remove(&k.0);
                    }
                }
            }
        }
        // queries after own writes still see the state at entry
        let mut post_res = vec![];
        for q in &node.queries {
            post_res.push(self.eval_query(&view, q, 0));
        }
        self.trace[idx].pre_queries = pre_res;
        self.trace[idx].reads = reads;
        self.trace[idx].queries = post_res;

        let fail = node.fail ^ self.faults.contains(&Site::Node(n));
        let bad = malformed(&node);
        // sub-messages are resolved when the node returns, against the state at that moment
        let family = code.family;
        let mut subs_sym = node.subs.clone();
        if family != Family::Puppet {
            // an Empty-typed contract cannot emit the chain's custom message: use a bank burn instead
            for s in subs_sym.iter_mut() {
                if let Msg::Custom { tag, .. } = s.msg {
                    s.msg = Msg::Burn { coins: vec![CoinSpec { denom: (tag % 3) as u8, amt: Amt::Exact(1 + (tag as u128 % 5)) }] };
                }
            }
        }
        let subs_rt: Vec<SubMsg<XMsg>> = subs_sym
            .iter()
            .enumerate()
            .map(|(i, s)| {
                let mut msg = self.resolve(addr, &s.msg);
                if self.faults.contains(&Site::Leaf(n, i)) {
                    msg = Self::force_fail(msg);
                }
                SubMsg { id: s.id, payload: Binary::from(s.payload.0.clone()), msg, gas_limit: None, reply_on: match s.reply_on { RO::Never => ReplyOn::Never, RO::Success => ReplyOn::Success, RO::Error => ReplyOn::Error, RO::Always => ReplyOn::Always } }
            })
            .collect();
        for s in &subs_sym {
            self.reply_lookup.insert((addr.to_string(), s.id, s.payload.0.clone()), s.reply);
        }
        self.nodes_rt.insert(
            n,
            NodeRt {
                pre_queries: preq,
                reads: node.reads.clone(),
                writes: node.writes.clone(),
                queries: postq,
                fail,
                attrs: node.attrs.clone(),
                events: node.events.clone(),
                data: match &node.data { DataSpec::None => None, DataSpec::Some(d) => Some(d.0.clone()) },
                subs: subs_rt.clone(),
            },
        );
        if fail {
            self.failures += 1;
            self.last_fail = Some(Why::Plain);
            return Err(());
        }
        if bad {
            self.failures += 1;
            self.why(Why::AfterMalformed);
            return Err(());
        }
        let data = match &node.data { DataSpec::None => None, DataSpec::Some(d) => Some(d.0.clone()) };
        Ok((node.attrs.clone(), node.events.clone(), data, subs_sym, subs_rt))
    }

    /// a leaf message turned into one that must fail
    fn force_fail(msg: CosmosMsg<XMsg>) -> CosmosMsg<XMsg> {
        match msg {
            CosmosMsg::Bank(BankMsg::Send { to_address, mut amount }) => {
                amount.push(coin(u128::MAX / 4, DENOMS[0]));
                BankMsg::Send { to_address, amount }.into()
            }
            CosmosMsg::Bank(BankMsg::Burn { mut amount }) => {
                amount.push(coin(u128::MAX / 4, DENOMS[0]));
                BankMsg::Burn { amount }.into()
            }
            CosmosMsg::Custom(x) => CosmosMsg::Custom(XMsg { tag: x.tag, fail: true }),
            CosmosMsg::Staking(StakingMsg::Delegate { validator, .. }) => StakingMsg::Delegate { validator, amount: coin(0, BONDED) }.into(),
            CosmosMsg::Staking(StakingMsg::Undelegate { validator, .. }) => StakingMsg::Undelegate { validator, amount: coin(0, BONDED) }.into(),
            CosmosMsg::Staking(StakingMsg::Redelegate { src_validator, .. }) => StakingMsg::Redelegate { src_validator, dst_validator: "nobody".into(), amount: coin(0, BONDED) }.into(),
            CosmosMsg::Distribution(DistributionMsg::SetWithdrawAddress { .. }) => DistributionMsg::SetWithdrawAddress { address: "not an address".into() }.into(),
            other => other,
        }
    }

    fn compose(&mut self, addr: &str, entry: Event, out: (Vec<(String, String)>, Vec<(String, Vec<(String, String)>)>, Option<Vec<u8>>, Vec<Sub>, Vec<SubMsg<XMsg>>), node_idx: Option<usize>, depth: usize) -> R<Resp> {
        let (attrs, events, data, subs_sym, subs_rt) = out;
        let mut evs = vec![entry];
        if !attrs.is_empty() {
            let mut e = Event::new("wasm").add_attribute("_contract_address", addr);
            for (k, v) in &attrs {
                e = e.add_attribute(k.clone(), v.clone());
            }
            evs.push(e);
        }
        for (ty, a) in &events {
            let mut e = Event::new(format!("wasm-{}", ty)).add_attribute("_contract_address", addr);
            for (k, v) in a {
                e = e.add_attribute(k.clone(), v.clone());
            }
            evs.push(e);
        }
        let mut data = data;
        for (i, (s, rt)) in subs_sym.iter().zip(subs_rt.iter()).enumerate() {
            let site = node_idx.map(|n| Site::Leaf(n, i));
            let r = self.exec_sub(addr, s, rt, site, depth + 1)?;
            evs.extend(r.events);
            if r.data.is_some() {
                data = r.data;
            }
        }
        Ok(Resp { events: evs, data })
    }

    /// One sub-message: its own rollback scope, then the reply decision.
    fn exec_sub(&mut self, dispatcher: &str, s: &Sub, rt: &SubMsg<XMsg>, site: Option<Site>, depth: usize) -> R<Resp> {
        let keep = self.st.clone();
        let result = self.exec_msg(dispatcher, &rt.msg, site, depth);
        match result {
            Ok(r) => {
                if matches!(s.reply_on, RO::Success | RO::Always) {
                    self.why(Why::ReplyDue { child_ok: true, reply_node: s.reply });
                    let rec = ReplyRec { id: s.id, payload: s.payload.0.clone(), ok: true, events: r.events.clone(), data: r.data.clone(), msg_values: vec![r.data.clone().unwrap_or_default()] };
                    let rr = self.reply(dispatcher, s, rec, depth)?;
                    let mut events = r.events;
                    events.extend(rr.events);
                    Ok(Resp { events, data: rr.data })
                } else {
                    self.why(Why::NoReply { child_ok: true, reply_node: s.reply });
                    Ok(Resp { events: r.events, data: None })
                }
            }
            Err(()) => {
                self.st = keep;
                let funded = match &rt.msg {
                    CosmosMsg::Wasm(WasmMsg::Execute { funds, .. }) | CosmosMsg::Wasm(WasmMsg::Instantiate { funds, .. }) | CosmosMsg::Wasm(WasmMsg::Instantiate2 { funds, .. }) => funds.iter().any(|c| !c.amount.is_zero()),
                    _ => false,
                };
                if funded {
                    self.funded_failures += 1;
                }
                if matches!(s.reply_on, RO::Error | RO::Always) {
                    self.why(Why::ReplyDue { child_ok: false, reply_node: s.reply });
                    let rec = ReplyRec { id: s.id, payload: s.payload.0.clone(), ok: false, events: vec![], data: None, msg_values: vec![] };
                    let rr = self.reply(dispatcher, s, rec, depth)?;
                    self.caught += 1;
                    self.why(Why::AfterCaught);
                    Ok(rr)
                } else {
                    self.why(Why::NoReply { child_ok: false, reply_node: s.reply });
                    self.why(Why::AfterUncaught);
                    Err(())
                }
            }
        }
    }

    fn reply(&mut self, contract: &str, s: &Sub, rec: ReplyRec, depth: usize) -> R<Resp> {
        let mode = if rec.ok { "handle_success" } else { "handle_failure" };
        let entry = Event::new("reply").add_attribute("_contract_address", contract).add_attribute("mode", mode);
        // the puppet finds the node through the queue of expected replies for (contract, id, payload)
        let node = Some(s.reply).filter(|n| *n != usize::MAX);
        if let Some(n) = node {
            self.reply_queue.entry((contract.to_string(), s.id, s.payload.0.clone())).or_default().push_back(n);
        }
        let out = match self.run_node(Kind::Reply, contract, node, None, &[], Some(rec), depth) {
            Ok(o) => o,
            Err(()) => {
                if !self.st.contracts.contains_key(contract) {
                    self.failures += 1;
                }
                return Err(());
            }
        };
        self.compose(contract, entry, out, node, depth)
    }

    /// Executes one concrete message sent by `sender`. Err leaves the state dirty; every caller
    /// restores its own snapshot.
    pub fn exec_msg(&mut self, sender: &str, msg: &CosmosMsg<XMsg>, site: Option<Site>, depth: usize) -> R<Resp> {
        match msg {
            CosmosMsg::Bank(BankMsg::Send { to_address, amount }) => {
                if let Some(s) = site.clone() {
                    self.sites.push(s);
                }
                // the recipient is taken unchecked by the bank module (only queries and sudo validate)
                if self.bank_send(sender, to_address, amount).is_err() {
                    self.failures += 1;
                    self.last_fail = Some(Why::Plain);
                    return Err(());
                }
                let amt = amount.iter().map(|c| format!("{}{}", c.amount, c.denom)).collect::<Vec<_>>().join(",");
                Ok(Resp { events: vec![Event::new("transfer").add_attribute("recipient", to_address).add_attribute("sender", sender).add_attribute("amount", amt)], data: None })
            }
            CosmosMsg::Bank(BankMsg::Burn { amount }) => {
                if let Some(s) = site.clone() {
                    self.sites.push(s);
                }
                if self.bank_debit(sender, amount).is_err() {
                    self.failures += 1;
                    self.last_fail = Some(Why::Plain);
                    return Err(());
                }
                Ok(Resp { events: vec![], data: None })
            }
            CosmosMsg::Custom(x) => {
                if let Some(s) = site.clone() {
                    self.sites.push(s);
                }
                self.st.xmarks.insert(x.tag, sender.to_string());
                if x.fail {
                    self.failures += 1;
                    self.last_fail = Some(Why::Plain);
                    return Err(());
                }
                if x.tag % 3 == 0 {
                    return Ok(Resp { events: vec![], data: None });
                }
                Ok(Resp { events: vec![Event::new("xmod").add_attribute("tag", x.tag.to_string())], data: Some(format!("x{}", x.tag).into_bytes()) })
            }
            CosmosMsg::Wasm(WasmMsg::Execute { contract_addr, msg, funds }) => {
                if !Self::valid_addr(contract_addr) {
                    self.failures += 1;
                    return Err(());
                }
                if !funds.is_empty() && self.bank_send(sender, contract_addr, funds).is_err() {
                    self.failures += 1;
                    self.why(Why::Overdraft);
                    return Err(());
                }
                let node = Self::node_of(msg);
                let out = match self.run_node(Kind::Execute, contract_addr, node, Some(sender), funds, None, depth) {
                    Ok(o) => o,
                    Err(()) => {
                        if !self.st.contracts.contains_key(contract_addr) {
                            self.failures += 1;
                        }
                        return Err(());
                    }
                };
                let entry = Event::new("execute").add_attribute("_contract_address", contract_addr);
                let r = self.compose(contract_addr, entry, out, node, depth)?;
                Ok(Resp { events: r.events, data: wrap_execute(r.data) })
            }
            CosmosMsg::Wasm(WasmMsg::Instantiate { admin, code_id, msg, funds, label }) => self.instantiate(sender, admin.clone(), *code_id, msg, funds, label, None, depth),
            CosmosMsg::Wasm(WasmMsg::Instantiate2 { admin, code_id, msg, funds, label, salt }) => self.instantiate(sender, admin.clone(), *code_id, msg, funds, label, Some(salt.to_vec()), depth),
            CosmosMsg::Wasm(WasmMsg::Migrate { contract_addr, new_code_id, msg }) => {
                let fail = |s: &mut Self, w: Why| {
                    s.failures += 1;
                    s.why(w);
                    Err(())
                };
                if !Self::valid_addr(contract_addr) || !self.fx.codes.contains_key(new_code_id) {
                    return fail(self, Why::RegistryReject);
                }
                let Some(ci) = self.st.contracts.get_mut(contract_addr) else {
                    return fail(self, Why::RegistryReject);
                };
                if ci.admin.as_deref() != Some(sender) {
                    return fail(self, Why::Unauthorized);
                }
                ci.code_id = *new_code_id;
                let node = Self::node_of(msg);
                self.why(Why::Starts);
                let out = match self.run_node(Kind::Migrate, contract_addr, node, None, &[], None, depth) {
                    Ok(o) => o,
                    Err(()) => return Err(()),
                };
                let entry = Event::new("migrate").add_attribute("_contract_address", contract_addr).add_attribute("code_id", new_code_id.to_string());
                let r = self.compose(contract_addr, entry, out, node, depth)?;
                Ok(Resp { events: r.events, data: wrap_execute(r.data) })
            }
            CosmosMsg::Staking(StakingMsg::Delegate { validator, amount }) => {
                if let Some(s) = site.clone() {
                    self.sites.push(s);
                }
                let a = amount.amount.u128();
                let ok = a > 0 && amount.denom == BONDED && self.fx.validators.contains(validator);
                if ok {
                    *self.st.deleg.entry((sender.to_string(), validator.clone())).or_insert(0) += a;
                }
                if !ok || self.bank_send(sender, STAKING_MODULE, std::slice::from_ref(amount)).is_err() {
                    self.failures += 1;
                    self.last_fail = Some(Why::Plain);
                    return Err(());
                }
                Ok(Resp { events: vec![Event::new("delegate").add_attribute("validator", validator).add_attribute("amount", format!("{}{}", amount.amount, amount.denom)).add_attribute("new_shares", amount.amount.to_string())], data: None })
            }
            CosmosMsg::Staking(StakingMsg::Undelegate { validator, amount }) => {
                if let Some(s) = site.clone() {
                    self.sites.push(s);
                }
                let a = amount.amount.u128();
                let key = (sender.to_string(), validator.clone());
                let have = self.st.deleg.get(&key).copied();
                let ok = amount.denom == BONDED && a > 0 && self.fx.validators.contains(validator) && have.map_or(false, |h| a <= h);
                if !ok {
                    self.failures += 1;
                    self.last_fail = Some(Why::Plain);
                    return Err(());
                }
                let rest = have.unwrap() - a;
                if rest == 0 {
                    self.st.deleg.remove(&key);
                } else {
                    self.st.deleg.insert(key, rest);
                }
                let payout = self.st.block.1 + self.fx.unbonding_time * 1_000_000_000;
                self.st.unbond.push((sender.to_string(), validator.clone(), a, payout));
                Ok(Resp { events: vec![Event::new("unbond").add_attribute("validator", validator).add_attribute("amount", format!("{}{}", amount.amount, amount.denom)).add_attribute("completion_time", "2022-09-27T14:00:00+00:00")], data: None })
            }
            CosmosMsg::Staking(StakingMsg::Redelegate { src_validator, dst_validator, amount }) => {
                if let Some(s) = site.clone() {
                    self.sites.push(s);
                }
                let a = amount.amount.u128();
                let key = (sender.to_string(), src_validator.clone());
                let have = self.st.deleg.get(&key).copied();
                let ok = amount.denom == BONDED && self.fx.validators.contains(src_validator) && self.fx.validators.contains(dst_validator) && have.map_or(false, |h| a <= h);
                if !ok {
                    self.failures += 1;
                    self.last_fail = Some(Why::Plain);
                    return Err(());
                }
                let rest = have.unwrap() - a;
                if rest == 0 {
                    self.st.deleg.remove(&key);
                } else {
                    self.st.deleg.insert(key, rest);
                }
                if a > 0 {
                    *self.st.deleg.entry((sender.to_string(), dst_validator.clone())).or_insert(0) += a;
                }
                Ok(Resp { events: vec![Event::new("redelegate").add_attribute("source_validator", src_validator).add_attribute("destination_validator", dst_validator).add_attribute("amount", format!("{}{}", amount.amount, amount.denom))], data: None })
            }
            CosmosMsg::Distribution(DistributionMsg::SetWithdrawAddress { address }) => {
                if let Some(s) = site.clone() {
                    self.sites.push(s);
                }
                if !Self::valid_addr(address) {
                    self.failures += 1;
                    self.last_fail = Some(Why::Plain);
                    return Err(());
                }
                if address == sender {
                    self.st.withdraw.remove(sender);
                } else {
                    self.st.withdraw.insert(sender.to_string(), address.clone());
                }
                Ok(Resp { events: vec![Event::new("set_withdraw_address").add_attribute("withdraw_address", address)], data: None })
            }
            CosmosMsg::Wasm(WasmMsg::UpdateAdmin { contract_addr, admin }) => self.set_admin(sender, contract_addr, Some(admin.clone())),
            CosmosMsg::Wasm(WasmMsg::ClearAdmin { contract_addr }) => self.set_admin(sender, contract_addr, None),
            _ => {
                self.failures += 1;
                Err(())
            }
        }
    }

    fn set_admin(&mut self, sender: &str, contract: &str, new_admin: Option<String>) -> R<Resp> {
        let ok = Self::valid_addr(contract) && new_admin.as_deref().map_or(true, Self::valid_addr);
        let ci = self.st.contracts.get_mut(contract);
        match (ok, ci) {
            (true, Some(ci)) if ci.admin.as_deref() == Some(sender) => {
                ci.admin = new_admin;
                Ok(Resp { events: vec![], data: None })
            }
            (true, Some(_)) => {
                self.failures += 1;
                self.why(Why::Unauthorized);
                Err(())
            }
            _ => {
                self.failures += 1;
                self.why(Why::RegistryReject);
                Err(())
            }
        }
    }

    fn node_of(msg: &Binary) -> Option<usize> {
        let v: serde_json::Value = serde_json::from_slice(msg.as_slice()).ok()?;
        v.get("n")?.as_u64().map(|n| n as usize)
    }

    #[allow(clippy::too_many_arguments)]
    fn instantiate(&mut self, sender: &str, admin: Option<String>, code_id: u64, msg: &Binary, funds: &[Coin], label: &str, salt: Option<Vec<u8>>, depth: usize) -> R<Resp> {
        let fail = |s: &mut Self| {
            s.failures += 1;
            s.why(Why::RegistryReject);
            Err(())
        };
        if label.is_empty() {
            return fail(self);
        }
        let Some(code) = self.fx.codes.get(&code_id).cloned() else {
            return fail(self);
        };
        let instance_id = self.st.contracts.len() as u64;
        let addr = match &salt {
            None if self.fx.addr_pool > 0 => pool_address(&api(), self.fx.addr_pool, instance_id),
            None => classic_address(code_id, instance_id),
            // the crate's own Api canonicalises only the normalised (lower-case) text of an address;
            // cosmwasm-std's MockApi also takes the upper-case spelling
            Some(_) if self.fx.api == 1 && !Self::valid_addr(sender) => return fail(self),
            Some(s) => match salted_address(&code.checksum, sender, s) {
                Some(a) => a,
                None => return fail(self),
            },
        };
        if self.st.contracts.contains_key(&addr) {
            self.why(Why::DuplicateAddress);
            return fail(self);
        }
        self.st.contracts.insert(addr.clone(), CInfo { code_id, creator: sender.to_string(), admin, label: label.to_string(), created: self.st.block.0, kv: Kv::new() });
        self.st.order.push(addr.clone());
        if !funds.is_empty() && self.bank_send(sender, &addr, funds).is_err() {
            self.why(Why::Overdraft);
            self.failures += 1;
            return Err(());
        }
        let node = Self::node_of(msg);
        self.why(Why::Starts);
        let out = self.run_node(Kind::Instantiate, &addr, node, Some(sender), funds, None, depth)?;
        let entry = Event::new("instantiate").add_attribute("_contract_address", &addr).add_attribute("code_id", code_id.to_string());
        let r = self.compose(&addr, entry, out, node, depth)?;
        Ok(Resp { events: r.events, data: Some(wrap_instantiate(&addr, r.data)) })
    }

    // ------------------------------------------------------------ top level

    /// App::execute_multi: all-or-nothing over the message list.
    pub fn top_multi(&mut self, sender: &str, msgs: &[Msg]) -> R<Vec<Resp>> {
        let keep = self.st.clone();
        let mut out = vec![];
        for (i, m) in msgs.iter().enumerate() {
            let mut c = self.resolve(sender, m);
            if self.faults.contains(&Site::Root(i)) {
                c = Self::force_fail(c);
            }
            match self.exec_msg(sender, &c, Some(Site::Root(i)), 0) {
                Ok(r) => out.push(r),
                Err(()) => {
                    self.st = keep;
                    return Err(());
                }
            }
        }
        Ok(out)
    }

    /// the concrete top-level messages (resolved against the pre-state, like the harness must do
    /// before calling App::execute_multi)
    pub fn resolve_top(&self, sender: &str, msgs: &[Msg]) -> Vec<CosmosMsg<XMsg>> {
        // CRef(252) names the contract that the latest instantiation earlier in the same batch is going
        // to create (its address is predictable); everywhere else it is an ordinary reference
        let mut created = 0u64;
        let mut newest: Option<String> = None;
        msgs.iter()
            .enumerate()
            .map(|(i, m)| {
                let mut c = self.resolve(sender, m);
                if let (Some(addr), CosmosMsg::Wasm(w)) = (&newest, &mut c) {
                    let named = matches!(m, Msg::Exec { c: CRef(252), .. } | Msg::Migrate { c: CRef(252), .. } | Msg::UpdateAdmin { c: CRef(252), .. } | Msg::ClearAdmin { c: CRef(252) });
                    if named {
                        match w {
                            WasmMsg::Execute { contract_addr, .. } | WasmMsg::Migrate { contract_addr, .. } | WasmMsg::UpdateAdmin { contract_addr, .. } | WasmMsg::ClearAdmin { contract_addr } => *contract_addr = addr.clone(),
                            _ => {}
                        }
                    }
                }
                if let Msg::Inst { code, salt, .. } = m {
                    let code_id = self.kref(*code);
                    let instance_id = self.st.contracts.len() as u64 + created;
                    let predicted = match salt {
                        None if self.fx.addr_pool > 0 => Some(pool_address(&api(), self.fx.addr_pool, instance_id)),
                        None => Some(classic_address(code_id, instance_id)),
                        Some(s) => self.fx.codes.get(&code_id).and_then(|code| salted_address(&code.checksum, sender, &s.0)),
                    };
                    if predicted.is_some() {
                        newest = predicted;
                        created += 1;
                    }
                }
                if self.faults.contains(&Site::Root(i)) {
                    Self::force_fail(c)
                } else {
                    c
                }
            })
            .collect()
    }

    /// App::execute_multi with messages resolved up-front (what the real call receives).
    pub fn top_multi_concrete(&mut self, sender: &str, msgs: &[CosmosMsg<XMsg>]) -> R<Vec<Resp>> {
        let keep = self.st.clone();
        let mut out = vec![];
        for (i, c) in msgs.iter().enumerate() {
            match self.exec_msg(sender, c, Some(Site::Root(i)), 0) {
                Ok(r) => out.push(r),
                Err(()) => {
                    self.st = keep;
                    return Err(());
                }
            }
        }
        Ok(out)
    }

    pub fn top_wasm_sudo(&mut self, contract: &str, node: usize) -> R<Resp> {
        let keep = self.st.clone();
        let r = (|| {
            let out = self.run_node(Kind::Sudo, contract, Some(node), None, &[], None, 0)?;
            let entry = Event::new("sudo").add_attribute("_contract_address", contract);
            self.compose(contract, entry, out, Some(node), 0)
        })();
        if r.is_err() {
            if !self.st.contracts.contains_key(contract) {
                self.failures += 1;
            }
            self.st = keep;
        }
        r
    }

    /// App::sudo(StakingSudo::Slash) with a fraction of 0 %, 100 % (whole-token arithmetic) or an
    /// invalid one (> 100 %, unknown validator)
    pub fn top_slash(&mut self, validator: &str, percent: u8) -> R<Resp> {
        if !self.fx.validators.iter().any(|v| v == validator) || percent > 100 {
            self.failures += 1;
            return Err(());
        }
        if percent == 100 {
            self.st.deleg.retain(|(_, v), _| v != validator);
            for u in self.st.unbond.iter_mut().filter(|u| u.1 == validator) {
                u.2 = 0;
            }
        }
        Ok(Resp { events: vec![], data: None })
    }

    pub fn top_mint(&mut self, to: &str, coins: &[Coin]) -> R<Resp> {
        if !Self::valid_addr(to) || self.bank_credit(to, coins).is_err() {
            self.failures += 1;
            return Err(());
        }
        Ok(Resp { events: vec![], data: None })
    }
}

/// Block update: matured unbondings are paid from the staking pool, front of the queue first.
pub fn process_queue(st: &mut MState) {
    let now = st.block.1;
    while let Some((d, _v, a, at)) = st.unbond.first().cloned() {
        if at > now {
            break;
        }
        st.unbond.remove(0);
        if a > 0 {
            let pool = st.bank.entry(STAKING_MODULE.to_string()).or_default().entry(BONDED.to_string()).or_insert(0);
            *pool = pool.saturating_sub(a);
            *st.bank.entry(d).or_default().entry(BONDED.to_string()).or_insert(0) += a;
        }
    }
}

pub fn uint(n: u128) -> Uint128 {
    Uint128::new(n)
}

pub fn bin(b: &[u8]) -> Binary {
    to_json_binary(&0u8).map(|_| Binary::from(b.to_vec())).unwrap()
}
