#![no_main]
// libFuzzer target: the bytes are decoded by the same generator as the proptest-driven check of
// C14 and judged by the same oracle (the semantic oracle is inside the target).
use libfuzzer_sys::fuzz_target;

fuzz_target!(|data: &[u8]| {
    vharness::fuzz::fuzz_one("C14", data);
});
