#![no_main]
// libFuzzer target: the bytes are decoded by the same generator as the proptest-driven check and
// judged by the same oracle (the semantic oracle is inside the target). The property whose
// projection judges the run is taken from VERIF_FUZZ_ID (default C02).
use libfuzzer_sys::fuzz_target;

fuzz_target!(|data: &[u8]| {
    let id = std::env::var("VERIF_FUZZ_ID").unwrap_or_else(|_| "C02".to_string());
    vharness::fuzz::fuzz_one(&id, data);
});
