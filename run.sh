#!/bin/sh
# Single entry point for MANIFEST commands.
#   run.sh <ID> <quick|thorough> [--replay FILE] [other vcheck flags]
# Rebuilds the harness (and with it /repo's current working tree, feature `verif` on), then runs
# the check. Exit 0 = held on everything explored, 1 = VIOLATION, 2 = inconclusive (build failure,
# watchdog, starved generator, harness problem).
#
# thorough = the proptest-driven check with 10-20x the quick budget and larger size bounds, and,
# for the properties that have a libFuzzer target (C06 kv, C07 prefix, C18 addr, C09 bank,
# C17 routing, the tree-engine properties C01-C05 C08 C10-C13 through `tree`, C14-C16 through
# `staking`; the property is passed in VERIF_FUZZ_ID), a coverage-guided campaign of a fixed number
# of runs over the same generator and oracle (split over 8 independent libFuzzer processes), started
# from fresh temporary corpora seeded from /verif/fuzz/seeds/<target>.
ID="$1"; TIER="${2:-quick}"
[ -n "$ID" ] || { echo "usage: run.sh <ID> <quick|thorough> [--replay FILE]" >&2; exit 2; }
shift; [ $# -gt 0 ] && shift
VERIF_ROOT="${VERIF_ROOT:-/verif}"; export VERIF_ROOT
CARGO_NET_OFFLINE=true; export CARGO_NET_OFFLINE
RUST_BACKTRACE=0; RUST_LIB_BACKTRACE=0; export RUST_BACKTRACE RUST_LIB_BACKTRACE
if ! (cd "$VERIF_ROOT/harness" && cargo build --release --offline -q 2>"$VERIF_ROOT/harness/build.log"); then
  echo "INCONCLUSIVE property=$ID harness or /repo failed to build (see harness/build.log)"
  grep -E "^error" -A 8 "$VERIF_ROOT/harness/build.log" | head -40
  exit 2
fi
"$VERIF_ROOT/harness/target/release/vcheck" "$ID" --tier "$TIER" "$@"
rc=$?
# replay runs, quick runs and failed runs end here
case " $* " in *" --replay "*) exit $rc ;; esac
[ "$TIER" = "thorough" ] || exit $rc
[ $rc -eq 0 ] || exit $rc

case "$ID" in
  C06) TARGET=kv; RUNS=600000; MAXLEN=1400 ;;
  C07) TARGET=prefix; RUNS=600000; MAXLEN=900 ;;
  C18) TARGET=addr; RUNS=300000; MAXLEN=500 ;;
  C09) TARGET=bank; RUNS=80000; MAXLEN=2500 ;;
  C17) TARGET=routing; RUNS=300000; MAXLEN=64 ;;
  C01|C02|C13) TARGET=tree; RUNS=40000; MAXLEN=12000 ;;   # every execution re-runs each call once per failure site
  C03|C04|C05|C08|C10|C11|C12) TARGET=tree; RUNS=100000; MAXLEN=12000 ;;
  C14|C15|C16) TARGET=staking; RUNS=150000; MAXLEN=1600 ;;
  *) exit 0 ;;
esac
VERIF_FUZZ_ID="$ID"; export VERIF_FUZZ_ID
[ -n "$VERIF_FUZZ_RUNS" ] && RUNS="$VERIF_FUZZ_RUNS"
FZ="$VERIF_ROOT/fuzz"
if ! (cd "$VERIF_ROOT/harness" && cargo +nightly fuzz build --fuzz-dir "$FZ" -s none "$TARGET" >"$FZ/build.log" 2>&1); then
  echo "INCONCLUSIVE property=$ID libFuzzer target $TARGET failed to build (see fuzz/build.log); the proptest part passed"
  exit 2
fi
TMP=$(mktemp -d "${TMPDIR:-/var/tmp}/vfuzz.$TARGET.XXXXXX")
trap 'rm -rf "$TMP"' EXIT INT TERM
SEED="${VERIF_SEED:-0}"; [ "$SEED" = "0" ] && SEED=1
# the campaign is split over $JOBS independent libFuzzer processes (own corpus, own seed), each
# doing RUNS/JOBS executions
JOBS="${VERIF_FUZZ_JOBS:-8}"
PER=$(( (RUNS + JOBS - 1) / JOBS ))
i=0
while [ $i -lt $JOBS ]; do
  mkdir -p "$TMP/corpus$i" "$TMP/artifacts$i"
  "$FZ/target/x86_64-unknown-linux-gnu/release/$TARGET" "$TMP/corpus$i" "$FZ/seeds/$TARGET" \
     -runs="$PER" -seed="$((SEED * 100 + i))" -len_control=0 -max_len="$MAXLEN" -timeout=60 -rss_limit_mb=4096 \
     -artifact_prefix="$TMP/artifacts$i/" -print_final_stats=1 >"$TMP/fuzz$i.log" 2>&1 &
  eval "PID$i=$!"
  i=$((i + 1))
done
frc=0; i=0
while [ $i -lt $JOBS ]; do
  eval "wait \$PID$i"; r=$?
  [ $r -ne 0 ] && frc=$r
  i=$((i + 1))
done
cat "$TMP"/fuzz*.log > "$TMP/fuzz.log"
grep -E "^failure" "$TMP/fuzz.log" | head -6
EXECS=$(grep -E "stat::number_of_executed_units" "$TMP/fuzz.log" | awk '{s+=$2} END {print s+0}')
echo "libFuzzer $TARGET: $JOBS processes, $EXECS executions"
python3 - "$VERIF_ROOT/evidence/$ID.json" "$TARGET" "${EXECS:-0}" "$frc" "$JOBS" <<'EOF2' 2>/dev/null
import json, sys
p, target, execs, frc, jobs = sys.argv[1], sys.argv[2], int(sys.argv[3] or 0), int(sys.argv[4]), int(sys.argv[5])
try:
    e = json.load(open(p))
    e["coverage"]["libfuzzer"] = {"target": target, "processes": jobs, "executions": execs, "exit_code": frc, "note": "coverage-guided campaign over the same generator and oracle, split over independent processes; only approximately reproducible from the seed, the saved replay file is the reproducible unit"}
    e["coverage"]["evaluations"] = e["coverage"].get("evaluations", 0) + execs
    json.dump(e, open(p, "w"), indent=1)
except Exception as ex:
    print("could not amend evidence:", ex)
EOF2
if grep -q "^VIOLATION" "$TMP/fuzz.log"; then
  grep "^VIOLATION" "$TMP/fuzz.log" | head -3
  exit 1
fi
if [ $frc -ne 0 ]; then
  # timeout / out-of-memory / crash outside the oracle: inconclusive, never a violation
  echo "INCONCLUSIVE property=$ID libFuzzer target $TARGET stopped with exit code $frc without an oracle failure (see below)"
  tail -5 "$TMP/fuzz.log"
  exit 2
fi
echo "OK property=$ID (proptest thorough + libFuzzer $TARGET: ${EXECS:-?} executions)"
exit 0
