#!/bin/sh
# Single entry point for MANIFEST commands.
#   run.sh <ID> <quick|thorough> [--replay FILE] [other vcheck flags]
# Rebuilds the harness (and with it /repo's current working tree, feature `verif` on), then runs
# the check. Exit 0 = held on everything explored, 1 = VIOLATION, 2 = inconclusive (build failure,
# watchdog, starved generator).
ID="$1"; TIER="${2:-quick}"
[ -n "$ID" ] || { echo "usage: run.sh <ID> <quick|thorough> [--replay FILE]" >&2; exit 2; }
shift; [ $# -gt 0 ] && shift
VERIF_ROOT="${VERIF_ROOT:-/verif}"; export VERIF_ROOT
CARGO_NET_OFFLINE=true; export CARGO_NET_OFFLINE
RUST_BACKTRACE=0; RUST_LIB_BACKTRACE=0; export RUST_BACKTRACE RUST_LIB_BACKTRACE
if ! (cd "$VERIF_ROOT/harness" && cargo build --release --offline -q 2>"$VERIF_ROOT/harness/build.log"); then
  echo "INCONCLUSIVE property=$ID harness or /repo failed to build (see harness/build.log)"
  grep -E "^error" -A 8 "$VERIF_ROOT/harness/build.log" | head -40
  exit 2
fi
exec "$VERIF_ROOT/harness/target/release/vcheck" "$ID" --tier "$TIER" "$@"
